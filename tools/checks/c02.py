"""C02 — every primary and secondary is transported exactly once."""
import os

import vlib
from checks import common

LEVEL = "proof"
LIBS = ["corecel", "geocel", "orange", "celeritas", "testcel_harness", "testcel_core",
        "testcel_geocel", "testcel_orange", "testcel_celeritas"]
HARNESS = {"trackinit": LIBS}
MANIFEST = {
    "category": "proof",
    "technique": "Lean 4 proof: invariant over all op sequences of a hand-written model of the "
                 "track-initialisation actions (index arithmetic as written); differential "
                 "correspondence against the real actions on a real CoreState (H3)",
    "text": "Theorems over the model for every sequence of Stepper steps, every per-step physics "
            "outcome, every slot count >= 1, every capacity, both track orders, any number of "
            "events in flight: vacancies are exactly the sorted inactive slots; track ids are "
            "unique per event and below the event counter, parents are earlier started tracks; "
            "created = started + pending as multisets (transported once), started = live + "
            "finished; InitializeTracks writes distinct initializers into distinct vacant slots; "
            "(both track orders: stable partition by charge modelled by its specification); "
            "counters are exact after every step; capacity is checked before any initializer is "
            "written; reset re-establishes the invariant; all of it for every state reachable by "
            "the Stepper protocol (inv_reachable, induction over the op sequence); progress: a step "
            "starts exactly min(vacancies, queued) tracks; conditional liveness with explicit "
            "bound: if every track is killed within K of its own steps and at most S secondaries "
            "are emitted, queued = alive = 0 after at most K*(slots+queued+S) calls "
            "(liveness_bounded_partial, potential argument); the reindex_* track orders are shown "
            "not to be consulted by the track-initialisation sources (reindex_orders_not_consulted) "
            "and are run on the real code; TrackStatus/TrackOrder enumerators regenerated from "
            "Types.hh (enums_match_source).  Correspondence: the real "
            "ExtendFromPrimaries/InitializeTracks/pre-step/InteractionApplier/tracking-cut/"
            "ExtendFromSecondaries actions and CoreState::reset on a CoreState built from "
            "SimpleTestBase with a scripted interactor, dumped after every action, exact diff.",
    "design_ref": "DESIGN.md §6 C02",
    "note": "Kernel loops are modelled sequentially (this build: OpenMP event-level, track loops "
            "sequential); under track-level parallelism track ids are assigned in a different "
            "order but the uniqueness argument (atomic counter) is unchanged. Liveness for real "
            "physics (every track dies after finitely many steps) is outside the model: "
            "progress_partial.",
}

KINDS = "aaaaakkkkue"


def gen_primaries(rng, max_ev, n, p_out=20):
    out = []
    for _ in range(n):
        pos = rng.range(1, 300)
        if rng.chance(1, p_out):
            pos = 0x1000 + rng.below(50)
        out.append("%d:%d:%d" % (rng.below(max_ev), rng.below(2), pos))
    return out


def gen_spec(rng, max_secs):
    k = KINDS[rng.below(len(KINDS))]
    if k in "ue":
        return k
    n = rng.choice([0, 0, 0, 1, 1, 2, rng.below(max_secs + 1)])
    return k + "".join(rng.choice("ggeex") if not rng.chance(1, 6) else "x" for _ in range(n))


def gen_script(rng, n_steps, mode="stepper", starved=False):
    """mode 'stepper': the Stepper's action order (efp every step).  mode 'manual': as
    TrackInit.test.cc drives the actions (efp only after an insert)."""
    slots = rng.choice([1, 1, 2, 2, 3, 4, 5, 8, rng.range(1, 64), rng.range(1, 16)])
    cap = rng.choice([1, 2, slots, slots + 1, 2 * slots, 4 * slots + 8, 4 * slots + 8, 1000, 1000])
    max_ev = rng.choice([1, 1, 2, 3, 8])
    # 0 none, 1 init_charge, 2..7 the reindex_* orders (real sort actions run in the harness)
    order = rng.choice([0, 1, 0, 1, 0, 1, 2, 3, 4, 5, 6, 7])
    max_secs = rng.choice([1, 2, 3, 6])
    stack = 8 * slots * (max_secs + 1)
    if starved:
        stack = rng.choice([0, 0, 1, 2, rng.below(slots + 2), rng.below(3 * slots + 2)])
        # which request fails depends on the kernel's thread order; the model allocates in slot
        # order, which is the thread order only without a thread->slot permutation
        order = order % 2
    lines = ["config %d %d %d %d %d" % (slots, cap, max_ev, order, stack)]
    if rng.chance(1, 8):
        lines.append("reseed")
    quiet = False
    for step in range(n_steps):
        ins = False
        if not quiet and (step == 0 or rng.chance(1, 4)):
            n = rng.choice([1, 1, 2, slots, slots + 1, rng.range(1, 2 * slots + 2), cap, cap + 1])
            n = min(n, 80)
            lines.append("insert " + " ".join(gen_primaries(rng, max_ev, n)))
            ins = True
            if rng.chance(1, 25):
                lines.append("insert " + " ".join(gen_primaries(rng, max_ev, 1)))  # not implemented
        if mode == "stepper" or ins:
            lines.append("efp")
        lines.append("init")
        lines.append("pre")
        if quiet:
            lines.append("interact " + " ".join(rng.choice(["k", "k", "a", "e"]) for _ in range(slots)))
        else:
            lines.append("interact " + " ".join(gen_spec(rng, max_secs) for _ in range(slots)))
        lines.append("cut")
        lines.append("efs")
        if rng.chance(1, 12):
            quiet = not quiet        # let the event drain for a while
        if rng.chance(1, 30):
            lines.append("reset")
            if rng.chance(1, 2):
                lines.append("reseed")
    # after an `efs error-capacity` every op answers bad-op until reset; `recover` resets
    # exactly when the state is poisoned
    out = []
    for l in lines:
        out.append(l)
        if l == "efs" and rng.chance(1, 3):
            out.append("recover")
    return out


def gen_boundary_script(rng, n_tail=4):
    """scripts that put the capacity requirement of ExtendFromPrimaries::insert and of
    ExtendFromSecondaries exactly at capacity-1, capacity or capacity+1 (several times)"""
    slots = rng.choice([1, 2, 3, 4, 6, 8, rng.range(1, 12)])
    order = rng.choice([0, 1, 0, 1, 2, 3, 4, 5, 6, 7])
    q = rng.choice([0, 0, 1, 2, rng.below(6)])          # queued after the first initialisation
    kinds, counts = [], []
    for _ in range(slots):
        kinds.append(rng.choice("aaak"))
        counts.append(rng.range(2, 4))
    nsec = sum(c - (1 if (k == "k" and order != 1) else 0) for k, c in zip(kinds, counts))
    d_efs = rng.choice([-1, 0, 0, 1])                    # requirement - capacity at the first efs
    cap = q + nsec - d_efs
    p0 = slots + q
    while cap < p0:                                      # the first insert itself must fit
        j = rng.below(slots)
        counts[j] += 1
        cap += 1
    max_ev = rng.choice([1, 2, 3])
    stack = 8 * slots * 12
    lines = ["config %d %d %d %d %d" % (slots, cap, max_ev, order, stack)]
    # insert at the boundary on the empty queue, then the one that fits
    for d in rng.choice([[0], [1, 0], [1, -1], [-1]]):
        n = cap + d
        if 0 < n <= 120 and n != p0:
            lines.append("insert " + " ".join(gen_primaries(rng, max_ev, n, p_out=10 ** 6)))
            if d <= 0:
                lines += ["reset"] if rng.chance(1, 2) else ["efp", "reset"]
    lines.append("insert " + " ".join(gen_primaries(rng, max_ev, p0, p_out=10 ** 6)))
    lines += ["efp", "init", "pre"]
    lines.append("interact " + " ".join(k + "".join(rng.choice("ge") for _ in range(c))
                                        for k, c in zip(kinds, counts)))
    lines += ["cut", "efs", "recover"]
    # mid-flight inserts at the boundary of the remaining room (queue length taken from a
    # dry run is not available here: use the three sizes around every plausible remainder)
    for _ in range(n_tail):
        room = rng.choice([cap - q - nsec, cap - q, cap, rng.below(cap + 1)])
        n = max(1, min(120, room + rng.choice([-1, 0, 1])))
        lines.append("insert " + " ".join(gen_primaries(rng, max_ev, n, p_out=10 ** 6)))
        lines += ["efp", "init", "pre"]
        lines.append("interact " + " ".join(gen_spec(rng, 3) for _ in range(slots)))
        lines += ["cut", "efs", "recover"]
    return lines


# --------------------------------------------------------------------------- dump parsing
def parse(line):
    """-> dict(head, slots[list of None|dict], vac, inits, parents, c, t)"""
    parts = line.split(" | ")
    d = {"head": parts[0], "ok": len(parts) == 7}
    if not d["ok"]:
        return d
    slots = []
    for w in parts[1].split()[1:]:
        if w == "-":
            slots.append(None)
            continue
        body, secs = w.split(":")
        f = body[1:].split("/")
        slots.append({"st": body[0], "tid": int(f[0]), "par": int(f[1]), "ev": int(f[2]),
                      "steps": int(f[3]), "particle": int(f[4]), "pos": int(f[5]), "secs": secs})
    d["slots"] = slots
    d["vac"] = [int(x) for x in parts[2].split()[1:]]
    d["inits"] = []
    for w in parts[3].split()[1:]:
        f = w.split("/")
        d["inits"].append({"tid": int(f[0]), "par": int(f[1]), "ev": int(f[2]),
                           "particle": int(f[3]), "pos": int(f[4])})
    d["parents"] = [int(x) for x in parts[4].split()[1:]]
    c = [int(x) for x in parts[5].split()[1:]]
    d["c"] = dict(zip(["gen", "init", "vac", "act", "sec", "alive"], c))
    d["t"] = [int(x) for x in parts[6].split()[1:]]
    return d


def oracle(script, out, stepper=True):
    """The property's own predicates evaluated on the dumps of the REAL code.
    Returns list of (op index, message)."""
    bad = []
    created = {}        # (ev) -> number of ids that must have been handed out
    started, finished = set(), set()
    pend_prims = []
    prev = None
    order = 0
    capacity = 0
    n_ins = 0
    base = 0            # ids handed out before the last reset (their tracks were dropped)
    for i, (l, o) in enumerate(zip(script, out)):
        w = l.split()
        d = parse(o)
        if not d["ok"]:
            if o.startswith("exception"):
                bad.append((i, "unexpected exception: " + o[:120], None))
            continue
        op = w[0]
        live = [(s["ev"], s["tid"]) for s in d["slots"] if s]
        nonin = sum(1 for s in d["slots"] if s)

        def err(msg, key=None):
            bad.append((i, f"{op}: {msg}", key))
        if op == "config":
            created, started, finished, pend_prims, n_ins, base = {}, set(), set(), [], 0, 0
            order = int(w[4])
            capacity = int(w[2])
        elif op in ("reset", "reseed", "recover"):
            if op == "recover" and d["head"] != "recover reset":
                pass
            elif op in ("reset", "recover"):
                started, finished = set(), set()
                if nonin or d["c"]["init"] or d["vac"] != list(range(len(d["slots"]))):
                    err("state not empty after reset")
                created = {e: t for e, t in enumerate(d["t"])}
                base = sum(d["t"])
            else:
                created = {}
                started, finished, base = set(), set(), 0
        elif op == "insert":
            if d["head"] == "insert ok":
                pend_prims = [int(x.split(":")[0]) for x in w[1:]]
            if prev and d["head"].startswith("insert "):
                # ExtendFromPrimariesAction::insert: error <=> queued + primaries > capacity
                need = len(w) - 1 + prev["c"]["init"]
                if d["head"] == "insert error-capacity" and need <= capacity:
                    err(f"capacity error although queued {prev['c']['init']} + {len(w) - 1} "
                        f"primaries = {need} <= capacity {capacity}",
                        "capacity-error-without-overflow")
                if d["head"] != "insert error-capacity" and need > capacity:
                    err(f"no capacity error although queued {prev['c']['init']} + {len(w) - 1} "
                        f"primaries = {need} > capacity {capacity}",
                        "capacity-overflow-not-detected")
        elif op == "efp":
            for e in pend_prims:
                created[e] = created.get(e, 0) + 1
            n_ins = len(pend_prims)
            if prev and d["c"]["init"] != prev["c"]["init"] + n_ins:
                err("num_initializers not increased by the number of primaries")
            if prev and d["c"]["gen"] != prev["c"]["gen"] + n_ins:
                err("num_generated wrong")
            pend_prims = []
            if any(p != -1 for p in d["parents"]):
                err("parents not cleared")
        elif op == "init" and prev:
            n = min(prev["c"]["vac"], prev["c"]["init"])
            new_inits = prev["inits"][len(prev["inits"]) - n:]
            changed = []
            for k, (a, b) in enumerate(zip(prev["slots"], d["slots"])):
                if a != b:
                    changed.append(k)
                    if a is not None:
                        err(f"slot {k} overwritten while holding track {a['tid']}")
            if len(changed) != n:
                err(f"{len(changed)} slots initialised, expected min(vac,init)={n}")
            got = sorted((d["slots"][k]["ev"], d["slots"][k]["tid"], d["slots"][k]["par"])
                         for k in changed if d["slots"][k])
            want = sorted((x["ev"], x["tid"], x["par"]) for x in new_inits)
            if got != want:
                err("initialised tracks are not the last min(vac,init) initializers")
            if d["inits"] != prev["inits"][:len(prev["inits"]) - n]:
                err("remaining initializers changed")
            for k in changed:
                s = d["slots"][k]
                if s and s["steps"] != 0:
                    err("new track does not start with step count 0")
                if s:
                    ini = [x for x in new_inits if (x["ev"], x["tid"]) == (s["ev"], s["tid"])]
                    if stepper and ini and s["st"] != "e" and ini[0]["pos"] != s["pos"]:
                        err(f"slot {k}: geometry copied from a slot at another position")
                    if order == 1 and ini and s["particle"] != ini[0]["particle"]:
                        err("particle mismatch")
            if d["c"]["act"] != nonin:
                err(f"num_active {d['c']['act']} != {nonin} occupied slots")
            if d["c"]["vac"] != len(d["slots"]) - nonin:
                err("num_vacancies != number of empty slots")
            started |= set(live)
        elif op == "interact" and prev:
            for a, b in zip(prev["slots"], d["slots"]):
                if a and a["st"] in "ai" and b and b["steps"] != a["steps"] + 1:
                    err("step count not incremented by one")
                if a and b and (a["ev"], a["tid"]) != (b["ev"], b["tid"]):
                    err("track identity changed during interaction")
            # C16: after a failed allocation the track must be handed to the action REGISTERED as
            # `physics-failure` (id looked up by label in the harness), be unchanged, and no
            # other model's interaction may be applied in the same step
            if "FAILED-WRONG-ACTION" in d["head"]:
                err("failed interaction stamped with an action other than the registered "
                    "physics-failure (slot=got/expected): " + d["head"],
                    "failed-interaction-wrong-action")
            if "FOREIGN-MODEL-APPLIED" in d["head"]:
                err("a model that was not selected (the secondary-free last model) was applied: "
                    + d["head"], "failed-interaction-foreign-model")
            if "FAILED-NOT-NOOP" in d["head"]:
                err("failed interaction changed the track: " + d["head"],
                    "failed-interaction-not-noop")
        elif op == "efs" and prev:
            # ExtendFromSecondariesAction: error <=> queued + new secondaries > capacity
            need = prev["c"]["init"]
            for a in prev["slots"]:
                if a is not None:
                    nv = sum(1 for ch in a["secs"] if ch != "x")
                    need += nv - (1 if (a["st"] != "a" and nv and order != 1) else 0)
            if d["head"] != "efs ok":
                if need <= capacity:
                    err(f"capacity error although queued {prev['c']['init']} + new secondaries "
                        f"= {need} <= capacity {capacity}", "capacity-error-without-overflow")
                # capacity error: no initializer written, no slot changed
                if d["slots"] != prev["slots"]:
                    err("slots changed by a failed capacity check")
                prev = d
                continue
            if need > capacity:
                err(f"no capacity error although queued {prev['c']['init']} + new secondaries "
                    f"= {need} > capacity {capacity}", "capacity-overflow-not-detected")
            nsec = 0
            for k, (a, b) in enumerate(zip(prev["slots"], d["slots"])):
                if a is None:
                    if b is not None:
                        err(f"slot {k} resurrected")
                    continue
                valid = [ch for ch in a["secs"] if ch != "x"]
                created[a["ev"]] = created.get(a["ev"], 0) + len(valid)
                if a["st"] == "a":
                    nsec += len(valid)
                    if b is None or (b["ev"], b["tid"], b["st"]) != (a["ev"], a["tid"], "a"):
                        err(f"alive track in slot {k} lost")
                else:
                    inplace = bool(valid) and order != 1
                    nsec += len(valid) - (1 if inplace else 0)
                    finished.add((a["ev"], a["tid"]))
                    if inplace:
                        if b is None or b["par"] != a["tid"] or b["st"] != "i" or b["steps"] != 0 \
                                or b["pos"] != a["pos"]:
                            err(f"slot {k}: first secondary not initialised in place")
                    elif b is not None:
                        err(f"slot {k}: dead track not released")
            if d["c"]["sec"] != nsec:
                err(f"num_secondaries {d['c']['sec']} != {nsec}")
            if d["c"]["init"] != prev["c"]["init"] + nsec or len(d["inits"]) != d["c"]["init"]:
                err("num_initializers != previous + new secondaries")
            if d["inits"][:prev["c"]["init"]] != prev["inits"]:
                err("earlier initializers overwritten")
            if d["c"]["alive"] != nonin:
                err(f"num_alive {d['c']['alive']} != {nonin} occupied slots")
            vac = [k for k, s in enumerate(d["slots"]) if s is None]
            if d["vac"] != vac or d["c"]["vac"] != len(vac):
                err(f"vacancies {d['vac']} != empty slots {vac}")
            started |= set(live)
            # ids: distinct, below counter; parents earlier and started
            pend = [(x["ev"], x["tid"]) for x in d["inits"]]
            allid = live + pend
            if len(set(allid)) != len(allid):
                err("duplicate track id among live and pending tracks")
            if set(allid) & (finished - set(live)) and any(x in finished for x in pend):
                err("finished track id pending again")
            for (e, t) in allid:
                if not (0 <= e < len(d["t"])) or t >= d["t"][e]:
                    err(f"track id {t} not below the counter of event {e}")
            for x in [s for s in d["slots"] if s] + d["inits"]:
                if x["par"] != -1 and (x["par"] >= x["tid"] or (x["ev"], x["par"]) not in started):
                    err(f"track {x['tid']}: parent {x['par']} is not an earlier started track")
            # transported once: every id handed out is live, finished or pending, exactly once
            for e, n in created.items():
                if e < len(d["t"]) and d["t"][e] != n:
                    err(f"event {e}: {d['t'][e]} ids handed out, {n} primaries+secondaries created")
            acc = set(live) | finished | set(pend)
            tot = sum(d["t"]) - base
            if stepper_complete(created, d) and len(acc) != tot:
                err(f"{tot} tracks created but {len(acc)} are live/finished/pending")
            if set(live) & finished:
                err("a finished track occupies a slot again")
        prev = d
    return bad


def stepper_complete(created, d):
    return all(e < len(d["t"]) and d["t"][e] == n for e, n in created.items()) and \
        sum(created.values()) == sum(d["t"])


# --------------------------------------------------------------------------- running
def resolve_and_run(exe, scripts, model):
    """run both sides.  returns (scripts, bounds, out_impl, out_model)"""
    flat, bounds = [], []
    for s in scripts:
        bounds.append((len(flat), len(flat) + len(s)))
        flat += s
    _, oh = vlib.run_lines([exe], flat)
    om = None
    if model:
        _, om = vlib.run_lines([model], flat)
    return scripts, bounds, oh, om


def run_all(ctx, exe, scripts, modes, model_ok, key_prefix=""):
    model = vlib.model_exe("C02") if model_ok else None
    resolved, bounds, oh, om = resolve_and_run(exe, scripts, model)
    diverged, tags, distinct, n_bad = [], {}, set(), 0
    manual_pos = 0
    for (a, b), s, mode in zip(bounds, resolved, modes):
        if om is not None:
            d = vlib.first_diff(oh[a:b], om[a:b])
            if d is not None:
                diverged.append({"script": s[:d[0] + 1], "impl": d[1], "model": d[2]})
        for l, o in zip(s, oh[a:b]):
            t = (l.split() or ["empty"])[0] + ":" + " ".join(o.split(" | ")[0].split()[1:2])
            if t.startswith("interact:F:"):
                t = "interact:failed" if t != "interact:F:-" else "interact:ok"
            tags[t] = tags.get(t, 0) + 1
        if any(o.startswith(("efs ok", "efs error")) for o in oh[a:b]):
            distinct.add("\n".join(s))
        bad = oracle(s, oh[a:b], stepper=(mode == "stepper"))
        if mode != "stepper":
            # outside the Stepper protocol only memory-safety/identity predicates are claimed
            bad = [x for x in bad if "another position" not in x[1]]
        if bad and n_bad < 4:
            n_bad += 1
            # a capacity-boundary failure is the most specific diagnosis: report it first
            bad.sort(key=lambda x: (x[2] is None, x[0]))
            i, msg, key = bad[0]
            ctx.violation(key if key else key_prefix + "oracle:" + msg.split(":")[0],
                          "real track-initialisation actions: " + msg,
                          {"harness": "harness/trackinit.cc", "mode": mode, "ops": s[:i + 1],
                           "impl": oh[a:b][i - 1:i + 1],
                           "contradicts": "Props/C02.lean (transported_once / counters_exact / "
                                          "vacancies_exact / unique_ids)"})
    return {"ops": len(oh), "scripts": len(resolved), "diverged": diverged, "tags": tags,
            "distinct": len(distinct), "resolved": resolved}


def run(ctx):
    quick = ctx.quick()
    ps = common.proof_side(ctx, "C02")
    broken = list(ps["broken"])
    ctx.assumptions += [
        "model of the track-initialisation actions is hand-written (Model/TrackInit.lean) and "
        "tied to the real actions by exact diffs of full state dumps after every action",
        "physics is an oracle: per step and per alive track an arbitrary outcome "
        "(alive/killed/errored, any list of valid/cleared secondaries); errored tracks are "
        "killed by the tracking-cut action before the end-of-step action (the real action is "
        "run in the harness)",
        "sequential execution of kernel loops (OpenMP event-level build); std::stable_partition, "
        "std::remove_if, std::exclusive_scan modelled by their specification",
        "32-bit overflow of counters/track ids not modelled (needs > 4e9 tracks per event)",
        "progress: per-step progress is proved for every outcome; liveness is proved "
        "conditionally (every track killed within K of its own steps, at most S secondaries, no "
        "failing Stepper call, no new primaries) with the bound K*(slots+queued+S); that real "
        "physics satisfies the hypotheses is outside the model",
        "reindex_* track orders: modelled as one constructor `reindex` taking the branches of "
        "`none`; justified by the regenerated list of TrackOrder enumerators compared in the "
        "track-initialisation sources (only init_charge) and zero uses of `track_slots` there",
        "fill_sequence over `indices` is modelled as range(number of track slots): the indices "
        "collection is resized to the number of track slots in TrackInitData.hh",
        "reseed (track counters zeroed) is only claimed at idle states (no live or pending "
        "tracks), as the Stepper documentation requires",
    ]
    exe, log, _ = vlib.build_harness("trackinit", LIBS)
    if exe is None:
        ctx.violation("harness-build", "harness/trackinit.cc no longer builds against /repo",
                      {"correspondence": "harness build", "log": log[-2000:]}, found_input=False)
        ctx.coverage.update({"evaluations": 0, "distinct_nontrivial": 0})
        return LEVEL
    n_scripts, n_steps = (800, 14) if quick else (9000, 24)
    if broken:
        n_scripts *= 2
    scripts, modes = [], []
    cdir = os.path.join(vlib.CORPUS, "C02")
    if os.path.isdir(cdir):
        for fn in sorted(os.listdir(cdir)):
            scripts.append([l.strip() for l in open(os.path.join(cdir, fn))
                            if l.strip() and not l.startswith("#")])
            modes.append("manual" if "manual" in fn else "stepper")
    n_corpus = len(scripts)
    for k in range(n_scripts):
        mode = "manual" if k % 5 == 4 else "stepper"
        if k % 4 == 1:
            mode = "stepper"
            scripts.append(gen_boundary_script(ctx.rng))
        else:
            scripts.append(gen_script(ctx.rng, ctx.rng.range(3, n_steps), mode=mode,
                                      starved=(k % 11 == 10)))
        modes.append(mode)
    scripts.append(["config 2 4 1 0 8", "frob", "insert 0:0", "insert 5:0:1", "interact a",
                    "efp", "", "config 0 1 1 0 1", "init"])
    modes.append("stepper")
    r = run_all(ctx, exe, scripts, modes, ps["model_ok"])
    if not ps["model_ok"]:
        broken.append("model driver did not build")
    if r["diverged"]:
        broken.append(f"correspondence: model and implementation differ on {len(r['diverged'])} "
                      "scripts")
    if broken and not ctx.violations:
        ctx.violation("unproved", "; ".join(broken)[:600],
                      {"no_longer_checks": broken, "diverging_scripts": r["diverged"][:2]},
                      found_input=False)
    if not quick and ps["build"]["ok"]:
        common.leanchecker(ctx, ["CelerVerif.Props.C02"])
    ctx.coverage.update({
        "evaluations": r["ops"], "distinct_nontrivial": r["distinct"],
        "rule": "random action scripts on a real CoreState: slots 1..64, initializer capacity "
                "1..1000 (tight to ample), 1..8 events in flight, track orders none/init_charge and all "
                "six reindex_* orders (with the real SortTracksActions), primaries "
                "inserted mid-flight, outside-world primaries (errored at initialisation), "
                "errored/killed/unchanged outcomes, 0..6 secondaries per track with cleared ones, "
                "capacity errors followed by reset, reseed at idle; 1/4 of the scripts are boundary "
                "scripts that put queued+primaries and queued+new secondaries at capacity-1, "
                "capacity and capacity+1 (oracle: error <=> requirement > capacity, keys "
                "capacity-error-without-overflow / capacity-overflow-not-detected); 4/5 in the Stepper's action "
                "order, 1/5 driven as TrackInit.test.cc does (parent-copy branch live); a script "
                "is non-trivial if it completed at least one end-of-step action; distinct = "
                "distinct scripts; every dump line is one evaluation",
        "op_mix": dict(sorted(r["tags"].items())), "corpus_scripts": n_corpus,
        "scripts": r["scripts"], "diverging_scripts": len(r["diverged"]),
        "samples": [r["resolved"][n_corpus][:9]],
        "correspondence_broken": broken,
    })
    return LEVEL


def replay(ctx, data):
    r = data["replay"]
    if "ops" in r:
        exe, log, _ = vlib.build_harness("trackinit", LIBS)
        _, oh = vlib.run_lines([exe], r["ops"])
        for l, o in zip(r["ops"], oh):
            print(l, "->", o)
        bad = oracle(r["ops"], oh, stepper=(r.get("mode", "stepper") == "stepper"))
        print("oracle:", bad if bad else "holds")
        return 1 if bad else 0
    print(vlib.json.dumps(r, indent=1))
    return 0
