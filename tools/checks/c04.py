"""C04 — Every discrete interaction conserves energy and yields valid final states."""
import math
import struct

import vlib
from checks import common, numself

LEVEL = "other"
LIBS = ["corecel", "celeritas", "testcel_harness", "testcel_core", "testcel_celeritas"]
HARNESS = {"interact": LIBS, "numself": ["corecel"]}
MANIFEST = {
    "category": "other",
    "technique": "Lean 4 proofs at ℝ about a Num-generic, script-driven model of the interactors "
                 "(energy identities, ranges, momentum/recoil identities, unit directions, allocation "
                 "failure, KN acceptance bound) + bit-exact Float correspondence with the real "
                 "interactors under a ScriptedEngine + impl-side oracle on every interactor",
    "text": "Model/Interact.lean models Klein–Nishina, e+ annihilation, Møller–Bhabha and muon "
            "Bethe–Bloch ionisation (with IoniFinalStateHelper), the bremsstrahlung final state "
            "(Tsai–Urban + BremFinalStateHelper), Bethe–Heitler below 2 MeV, AtomicRelaxation (vacancy "
            "cascade on any transition table: Auger vs electron cut, fluorescence vs gamma cut, "
            "sum_energy, count), and the bookkeeping of Coulomb/Rayleigh/Livermore, together with rotate/from_spherical/calc_exiting_direction "
            "and the StackAllocator request; random numbers come from an explicit script. The same "
            "definitions run at Float must reproduce the real interactors bit-for-bit (outgoing "
            "energy/direction, secondaries, deposit, allocator size, draw count) and are proved at ℝ: "
            "exact energy conservation incl. 2mc² terms, ranges from the sampled intervals, "
            "momentum conservation (Compton, ionisation recoil identity), unit directions, explicit "
            "failure with nothing emitted when the allocator is exhausted. Every interactor named by "
            "the property (also the table-driven ones) is additionally driven on the real code with "
            "XorwowRngEngine and with scripted extreme uniforms and judged by the property's own "
            "predicate (residuals, unit vectors, thresholds, finiteness, draw counts, 0-capacity).",
    "design_ref": "DESIGN.md §6 C04",
    "note": "Partial: proofs are about the real-number reading (rounding measured, not proved); "
            "Seltzer–Berger / relativistic-brem rejection functions, the Wentzel "
            "distribution, Livermore shell selection, calc_max_secondaries, Bethe–Heitler rejection "
            "above 2 MeV, MuBB/Bragg/ICRU73QO distributions and the neutron interactors are NOT "
            "modelled in Lean: oracle only (neutron: not driven); see "
            "coverage.interactor_model_status. "
            "No worst-case draw bound exists for adversarial streams; KN per-iteration acceptance "
            ">= 1/2 is proved, draw counts are measured. Momentum conservation is FALSE for "
            "EPlusGGInteractor as written (negation proved; known finding eplusgg-momentum); the "
            "other momentum theorems carry the hypothesis rotOK (rotate() sign loss near ±z).",
}


# (i) modelled in Lean + diffed bit-exactly + theorems; (ii) modelled/diffed only or formula +
# theorem without diff; (iii) oracle only
INTERACTOR_MODEL_STATUS = {
    "KleinNishinaInteractor": "(i) whole operator(): rejection loop, angle, electron, cutoff/deposit; "
        "theorems kn_*",
    "EPlusGGInteractor": "(i) whole operator() in flight and at rest; theorems gg_* (momentum: "
        "negation proved, known finding)",
    "MollerBhabhaInteractor": "(i) whole operator() incl. Moller/Bhabha energy distributions and "
        "IoniFinalStateHelper; theorems mb_*, ioni_*",
    "MuHadIonizationInteractor<BetheBlochEnergyDistribution>": "(i) whole operator() incl. "
        "calc_max_secondary_energy; theorems muhad_*, ioni_*",
    "MuHadIonizationInteractor<MuBB / BraggICRU73QO>": "(i) final state (IoniFinalStateHelper) via "
        "ioni_* theorems only; (iii) the MuBB and Bragg/ICRU73QO energy distributions",
    "MuBremsstrahlungInteractor": "(i) whole operator(): ReciprocalDistribution + rejection on "
        "MuBremsDiffXsCalculator (modelled; pow/cbrt element constants are oracle inputs), "
        "sample_cos_theta, BremFinalStateHelper; theorems mubrems_* (DCS is a parameter)",
    "RayleighInteractor": "(i) whole operator(): evaluate_weight_and_prob, selector, form-factor loop, "
        "exiting direction (fit parameters a,b,n are oracle inputs); theorems rayleigh_* "
        "(cos range needs weights in [0,1], n >= 1/2 as hypotheses)",
    "BetheHeitlerInteractor": "(i) E < 2 MeV branch whole operator() + pair final state (bh_*, bhlow_*); "
        "(ii) E >= 2 MeV: epsilon formulas f1/f2 and energy split modelled with theorem "
        "bh_high_energy_leptons_nonneg, NOT diffed; (iii) screening functions, Coulomb "
        "correction, LPM rejection",
    "SeltzerBergerInteractor / RelativisticBremInteractor / CombinedBremInteractor": "(i) Tsai-Urban "
        "angle + BremFinalStateHelper (bremtail op; brem_*); (ii) photon-energy proposal "
        "sqrt(Reciprocal(kmin^2+kdc^2, T^2+kdc^2) - kdc^2) modelled with theorem "
        "brems_proposal_in_closed_interval, NOT diffed; (iii) SB tables / RB+LPM cross section "
        "rejection, positron correction",
    "LivermorePEInteractor": "(i) AtomicRelaxation cascade (relax op; relaxation_*) and the energy "
        "bookkeeping livermoreFinal (livermore_*), the latter not diffed on its own; (iii) subshell "
        "selection (tabulated cross sections), Sauter-Gavrila direction",
    "AtomicRelaxation": "(i) whole operator() on arbitrary transition tables; (iii) "
        "calc_max_secondaries bound (xrelax oracle)",
    "CoulombScatteringInteractor": "(i) operator() after the angle sample: recoil energy, energy "
        "bookkeeping, exiting direction (coulombFinal; cos θ and its draw count are RECORDED "
        "oracle inputs from the real WentzelDistribution, re-checked by the harness); theorems "
        "coulomb_energy_conserved, coulomb_recoil_range; (iii) WentzelDistribution itself",
    "ChipsNeutronElasticInteractor / NeutronInelasticInteractor": "(iii) not driven at all (no "
        "fixture in the harness): NOT covered",
    "shared helpers": "(i) rotate, from_spherical, make_unit_vector, calc_exiting_direction, "
        "ExitingDirectionSampler, StackAllocator request, Bernoulli/Reciprocal/UniformReal/"
        "InverseSquare/Isotropic/RejectionSampler/Selector(3)",
}

EMASS = 0.5109989461
MUMASS = 105.6583745
TWO53 = 2.0 ** -53


def hx(x):
    return "%016x" % struct.unpack("<Q", struct.pack("<d", float(x)))[0]


def fl(s):
    return struct.unpack("<d", struct.pack("<Q", int(s, 16)))[0]


# --------------------------------------------------------------------------- generators
def log_uniform(rng, lo, hi):
    """log-uniform on [lo, hi] with both end points hit with probability 1/16 each"""
    k = rng.below(16)
    if k == 0:
        return lo
    if k == 1:
        return hi
    return math.exp(math.log(lo) + rng.unit() * (math.log(hi) - math.log(lo)))


def gen_dir(rng):
    """unit vector: whole sphere, axes, and the neighbourhood of the poles (|sinθ| < 0.005 is a
    separate branch of rotate())"""
    k = rng.below(12)
    if k == 0:
        v = [0.0, 0.0, 0.0]
        v[rng.below(3)] = rng.choice([1.0, -1.0])
        return v
    if k in (1, 2):     # near ±z, all four quadrants of (x, y)
        s = 10 ** (-rng.unit() * 9 - 2.2) if k == 1 else rng.unit() * 0.01
        phi = rng.unit() * 2 * math.pi
        v = [s * math.cos(phi), s * math.sin(phi), rng.choice([1.0, -1.0])]
    elif k == 3:        # exactly in a coordinate plane
        phi = rng.unit() * 2 * math.pi
        v = [math.cos(phi), math.sin(phi), 0.0]
        rng.shuffle(v)
    else:
        z = rng.unit() * 2 - 1
        phi = rng.unit() * 2 * math.pi
        r = math.sqrt(max(0.0, 1 - z * z))
        v = [r * math.cos(phi), r * math.sin(phi), z]
    n = math.sqrt(sum(c * c for c in v))
    v = [c / n for c in v]
    n = math.sqrt(sum(c * c for c in v))
    return [c / n for c in v]


# canonical uniforms are multiples of 2^-53 in [0, 1): both end points are reachable values
EXTREME_U = [0.0, 1.0 - TWO53, TWO53, 0.5, 0.25, 0.75, 2.0 ** -32, 1 - 2.0 ** -32, 0.5 - TWO53]


def canon(x):
    """round down to the 53-bit canonical grid"""
    return min(math.floor(x * 2.0 ** 53) / 2.0 ** 53, 1.0 - TWO53)


def gen_script(rng, n):
    out = []
    mode = rng.below(6)
    for _ in range(n):
        if mode == 0 or (mode == 1 and rng.chance(1, 3)):
            out.append(rng.choice(EXTREME_U))
        elif mode == 2 and rng.chance(1, 2):
            out.append(canon(rng.unit() * 1e-6))
        elif mode == 3 and rng.chance(1, 2):
            out.append(canon(1.0 - rng.unit() * 1e-6 - TWO53))
        else:
            out.append(rng.unit())
    return out


def gen_alloc(rng, need):
    """(capacity, size): exhausted (0 / need-1 free) or ample"""
    k = rng.below(8)
    if k == 0:
        return 0, 0
    if k == 1:
        size = rng.range(0, 3)
        return size + need - 1, size
    size = rng.range(0, 3)
    return size + need + rng.range(0, 4), size


# model -> (needed slots, particle, E range, cut range or None)
MODELLED = ["kn", "gg", "mb", "muhad", "bhlow", "relax", "mubrems", "rayleigh", "bremtail", "rotate",
            "exitdir", "calcexit"]
ORACLE_CONSTS = {}      # filled from the harness op `consts2` (values the real code uses)


def gen_model_line(rng, kind):
    if kind == "relax":
        return gen_relax_line(rng)
    d = gen_dir(rng)
    if kind == "mubrems":
        cut = log_uniform(rng, 1e-3, 10.0)
        e = max(log_uniform(rng, cut, 1e7), cut * (1 + 2.0 ** -30))
        cap, size = gen_alloc(rng, 1)
        sc = " ".join(map(hx, gen_script(rng, rng.choice([0, 2, 4, 6, 8, 12, 20, 40]))))
        return "mubrems %d %d %s %s | %s" % (cap, size, " ".join(map(hx, [e, cut] + d)),
                                            ORACLE_CONSTS["mubrems"], sc)
    if kind == "rayleigh":
        el = rng.below(3)
        e = log_uniform(rng, 1e-4, 1e2)
        sc = " ".join(map(hx, gen_script(rng, rng.choice([0, 3, 4, 7, 10, 16, 31, 61]))))
        return "rayleigh %d %s %s %s | %s" % (el, " ".join(map(hx, [e] + d)), ORACLE_CONSTS["ray"],
                                             ORACLE_CONSTS["rayp"][el], sc)
    script = gen_script(rng, rng.choice([0, 1, 2, 3, 4, 5, 7, 9, 12, 16, 24]))
    sc = " ".join(map(hx, script))
    if kind == "kn":
        cap, size = gen_alloc(rng, 1)
        e = log_uniform(rng, 1e-6, 1e8)
        return "kn %d %d %s | %s" % (cap, size, " ".join(map(hx, [e] + d)), sc)
    if kind == "gg":
        cap, size = gen_alloc(rng, 2)
        e = 0.0 if rng.chance(1, 10) else log_uniform(rng, 1e-6, 1e8)
        return "gg %d %d %s | %s" % (cap, size, " ".join(map(hx, [e] + d)), sc)
    if kind == "mb":
        cap, size = gen_alloc(rng, 1)
        who = rng.choice(["e-", "e+"])
        cut = log_uniform(rng, 1e-4, 10.0)
        lo = (2 if who == "e-" else 1) * cut
        e = max(log_uniform(rng, lo, 1e8), lo * (1 + 2 ** -40))
        return "mb %s %d %d %s | %s" % (who, cap, size, " ".join(map(hx, [e, cut] + d)), sc)
    if kind == "muhad":
        cap, size = gen_alloc(rng, 1)
        cut = log_uniform(rng, 1e-4, 10.0)
        e = log_uniform(rng, 0.2, 1e3)
        if e <= cut:
            e = cut * 2
        return "muhad %d %d %s | %s" % (cap, size, " ".join(map(hx, [e, cut] + d)), sc)
    if kind == "bhlow":
        cap, size = gen_alloc(rng, 2)
        e = 2 * EMASS + (2.0 - 2 * EMASS) * rng.unit() * (1 - 1e-9) if rng.chance(7, 8) else 2 * EMASS
        return "bhlow %d %d %s | %s" % (cap, size, " ".join(map(hx, [e] + d)), sc)
    if kind == "bremtail":
        e = log_uniform(rng, 1e-3, 1e8)
        eg = e * rng.unit()
        return "bremtail %s | %s" % (" ".join(map(hx, [e] + d + [eg])), sc)
    if kind == "rotate":
        return "rotate %s" % " ".join(map(hx, gen_dir(rng) + d))
    if kind == "exitdir":
        c = rng.choice([1.0, -1.0, 0.0, rng.unit() * 2 - 1, 1 - rng.unit() * 1e-9])
        return "exitdir %s" % " ".join(map(hx, [c] + d + [rng.choice(EXTREME_U + [rng.unit()])]))
    p, q = log_uniform(rng, 1e-4, 1e6), log_uniform(rng, 1e-4, 1e6)
    return "calcexit %s" % " ".join(map(hx, [p] + d + [q] + gen_dir(rng)))


MALFORMED = ["", "frob", "kn", "kn 1 0 | ", "kn 1 2 3ff0000000000000 0 0 3ff0000000000000 |",
             "gg x 0 3ff0000000000000 0000000000000000 0000000000000000 3ff0000000000000 |",
             "mb e0 1 0 3ff0000000000000 3f50624dd2f1a9fc 0000000000000000 0000000000000000 "
             "3ff0000000000000 |", "rotate 1 2 3", "x", "x kn 1 0", "bhlow 2 0 4000000000000000 "
             "0000000000000000 0000000000000000 3ff0000000000000 |",
             "kn 1 0 3ff 0000000000000000 0000000000000000 3ff0000000000000 |"]

# impl-side oracle models: name -> dict(need, pid, mass, erange, cut, mom, thresholds…)
PIDS = {"e-": 0, "e+": 1, "gamma": 2, "mu-": 3, "mu+": 4}
MASS = {0: EMASS, 1: EMASS, 2: 0.0, 3: MUMASS, 4: MUMASS}


def _m(need, inc, lo, hi, cut=None, mom=False, sec=(), thr=None, scattered=True, own=None):
    """own: which production cut bounds the model's own sampling interval ('e' / 'g' / None)"""
    if own is None and cut is not None:
        own = "g" if 2 in sec and 0 not in sec else "e"
    return dict(need=need, inc=PIDS[inc], lo=lo, hi=hi, cut=cut, mom=mom, sec=set(sec), thr=thr,
                scattered=scattered, own=own)


ORACLE_MODELS = {
    "kn": _m(1, "gamma", 1e-6, 1e8, mom=True, sec=(0,), thr="kn"),
    "gg": _m(2, "e+", 1e-6, 1e8, mom=True, sec=(2,), scattered=False),
    "mb-": _m(1, "e-", None, 1e8, cut=(1e-4, 10.0), mom=True, sec=(0,), thr="cut"),
    "mb+": _m(1, "e+", None, 1e8, cut=(1e-4, 10.0), mom=True, sec=(0,), thr="cut"),
    "bb-": _m(1, "mu-", 0.2, 1e3, cut=(1e-4, 1.0), mom=True, sec=(0,), thr="cut"),
    "bb+": _m(1, "mu+", 0.2, 1e3, cut=(1e-4, 1.0), mom=True, sec=(0,), thr="cut"),
    "mubb-": _m(1, "mu-", 1e3, 1e8, cut=(1e-4, 10.0), mom=True, sec=(0,), thr="cut"),
    "mubb+": _m(1, "mu+", 1e3, 1e8, cut=(1e-4, 10.0), mom=True, sec=(0,), thr="cut"),
    "bragg": _m(1, "mu+", 1e-3, 0.2, cut=(1e-5, 1e-3), mom=True, sec=(0,), thr="bragg"),
    "icru": _m(1, "mu-", 1e-3, 0.2, cut=(1e-5, 1e-3), mom=True, sec=(0,), thr="bragg"),
    "bh": _m(2, "gamma", 2 * EMASS, 1e8, sec=(0, 1), scattered=False),
    "bhnolpm": _m(2, "gamma", 2 * EMASS, 1e8, sec=(0, 1), scattered=False),
    "bhpb": _m(2, "gamma", 2 * EMASS, 1e8, sec=(0, 1), scattered=False),
    "mubrems-": _m(1, "mu-", None, 1e7, cut=(1e-3, 10.0), sec=(2,), thr="cut"),
    "mubrems+": _m(1, "mu+", None, 1e7, cut=(1e-3, 10.0), sec=(2,), thr="cut"),
    "sb-": _m(1, "e-", None, 1e3, cut=(1e-3, 1.0), sec=(2,), thr="cut"),
    "sb+": _m(1, "e+", None, 1e3, cut=(1e-3, 1.0), sec=(2,), thr="cut"),
    "rb-": _m(1, "e-", 1e3, 1e8, cut=(1e-3, 10.0), sec=(2,), thr="cut"),
    "rb+": _m(1, "e+", 1e3, 1e8, cut=(1e-3, 10.0), sec=(2,), thr="cut"),
    "rblpm-": _m(1, "e-", 1e3, 1e8, cut=(1e-3, 10.0), sec=(2,), thr="cut"),
    "rblpm+": _m(1, "e+", 1e3, 1e8, cut=(1e-3, 10.0), sec=(2,), thr="cut"),
    "cb-": _m(1, "e-", None, 1e8, cut=(1e-3, 1.0), sec=(2,), thr="cut"),
    "cb+": _m(1, "e+", None, 1e8, cut=(1e-3, 1.0), sec=(2,), thr="cut"),
    "pe": _m(1, "gamma", 1e-5, 1e3, sec=(0,), scattered=False),
    "perelax": _m(8, "gamma", 1e-5, 1e3, cut=(1e-5, 1e-2), sec=(0, 2), thr="relax",
                  scattered=False, own="both"),
    "perelaxf": _m(8, "gamma", 1e-5, 1e3, cut=(1e-5, 1e-2), sec=(0, 2), thr="relax",
                   scattered=False, own="both"),
    "ray0": _m(0, "gamma", 1e-4, 1e2), "ray1": _m(0, "gamma", 1e-4, 1e2),
    "ray2": _m(0, "gamma", 1e-4, 1e2),
}
for sgn, inc in (("-", "e-"), ("+", "e+")):
    for ff in "012":
        for iso in "ab":
            ORACLE_MODELS["cs%s%s%s" % (sgn, ff, iso)] = _m(0, inc, 1e-3, 1e5, cut=(1e-3, 1.0))


def gen_cuts(rng, m):
    """(cut_e, cut_g, cut_p): independent production cuts — equal, γ below e, γ above e, one of
    them zero (never the cut that bounds the model's own sampling interval), fully independent"""
    lo, hi = m["cut"] or (1e-4, 1.0)
    a, b, c = (log_uniform(rng, lo, hi) for _ in range(3))
    own = m["own"]
    mode = rng.below(6)
    if mode == 0:
        return a, a, a
    if mode == 1:
        ce, cg = max(a, b) * (1 + rng.unit() * 9), min(a, b)
    elif mode == 2:
        ce, cg = min(a, b), max(a, b) * (1 + rng.unit() * 9)
    elif mode == 3:
        ce, cg = a, b
        if own == "e":
            cg = 0.0
        elif own == "g":
            ce = 0.0
        elif rng.chance(1, 2):
            ce = 0.0
        else:
            cg = 0.0
    else:
        ce, cg = a, b
    cp = rng.choice([c, ce, cg, 0.0])
    if own == "e":
        ce = min(max(ce, lo), hi)
    if own == "g":
        cg = min(max(cg, lo), hi)
    return ce, cg, cp


def gen_oracle_line(rng, name, scripted):
    m = ORACLE_MODELS[name]
    ce, cg, cp = gen_cuts(rng, m)
    own_cut = cg if m["own"] == "g" else ce
    lo = m["lo"]
    if lo is None:
        lo = own_cut * (2 if name == "mb-" else 1) * (1 + 2.0 ** -30)
    e = log_uniform(rng, lo, m["hi"])
    if name == "gg" and rng.chance(1, 12):
        e = 0.0
    if name.startswith("sb") and e >= 1e3:
        e = 1e3 * (1 - 2.0 ** -40)
    d = gen_dir(rng)
    need = max(m["need"], 1)
    cap, size = gen_alloc(rng, need)
    if name.startswith("perelax") and cap > size + need:
        cap += 12          # room to SEE a write past the request instead of corrupting the heap
    if m["need"] == 0 and cap == 0:
        cap = 1
    head = "x %s %d %d %s" % (name, cap, size, " ".join(map(hx, [e] + d + [ce, cg, cp])))
    if scripted:
        return head + " | u " + " ".join(map(hx, gen_script(rng, rng.choice([4, 8, 16, 32, 64]))))
    return head + " | s %x" % rng.below(1 << 32)


def gen_coulomb_lines(rng, exe, n):
    """two-pass recorded oracle: pass 1 asks the real WentzelDistribution (built as the interactor
    builds it) for cos θ and the number of uniforms it consumed on the script; pass 2 ops carry
    them as oracle inputs (the harness re-checks them) so that the model can reproduce
    CoulombScatteringInteractor's recoil bookkeeping and exiting direction exactly"""
    heads, p1 = [], []
    for _ in range(n):
        sgn, ff, iso = rng.choice("-+"), rng.choice("012"), rng.choice("ab")
        e = min(log_uniform(rng, 1e-3, 1e8), 1e8 * (1 - 2.0 ** -40))
        cut = log_uniform(rng, 1e-3, 1.0)
        d = gen_dir(rng)
        sc = " ".join(map(hx, gen_script(rng, rng.choice([1, 2, 3, 4, 6, 8, 12]))))
        heads.append((sgn, ff, iso, e, cut, d, sc))
        p1.append("wentzel %s %s %s %s %s | %s" % (sgn, ff, iso, hx(e), hx(cut), sc))
    _, o1 = vlib.run_lines([exe], p1)
    lines = []
    for (sgn, ff, iso, e, cut, d, sc), o in zip(heads, o1):
        w = o.split()
        if len(w) == 4 and w[0] == "wz":
            lines.append("coulomb %s %s %s %s %s %s %s %s | %s"
                         % (sgn, ff, iso, w[2], hx(e), hx(cut), " ".join(map(hx, d)), w[1] + " " + w[3],
                            sc))
    return lines


def gen_relax_line(rng, op="relax"):
    """synthetic EADL-like transition table: shells 0..n-1, every transition leads to strictly
    outer shells (ids >= n have no data), radiative and non-radiative mixed, energies around
    the two independent cuts"""
    n = rng.range(1, 6)
    ecut = rng.choice([0.0, 1e-3, log_uniform(rng, 1e-4, 1e-2)])
    gcut = rng.choice([0.0, 1e-3, ecut, log_uniform(rng, 1e-4, 1e-2)])
    toks = []
    for sh in range(n):
        k = rng.range(0, 4)
        probs = [rng.unit() + 0.05 for _ in range(k)]
        tot = sum(probs) * rng.choice([1.0, 1.0, 1.25])     # sometimes "no transition" remainder
        for p in probs:
            ini = rng.range(sh + 1, n + 2)
            aug = "-" if rng.chance(1, 2) else str(rng.range(sh + 1, n + 2))
            en = rng.choice([ecut, gcut, 1e-3, log_uniform(rng, 5e-5, 2e-2),
                             min(ecut, gcut) + abs(ecut - gcut) * rng.unit()])
            toks += ["t", str(sh), str(ini), aug, hx(p / tot), hx(en)]
    script = gen_script(rng, rng.choice([0, 2, 3, 6, 9, 15, 30, 60]))
    return "%s %d %d %s %s %s | %s" % (op, rng.below(n), n, hx(ecut), hx(gcut), " ".join(toks),
                                       " ".join(map(hx, script)))


def judge_xrelax(line, out):
    """the real AtomicRelaxation on a synthetic table: Σ emitted = reported energy, every
    secondary judged by its OWN type's cut, count within calc_max_secondaries()"""
    w = line.split()
    ecut, gcut = fl(w[3]), fl(w[4])
    fails = []
    if out == "script-exhausted":
        return fails
    o = out.split()
    if not o or o[0] != "xrelaxed":
        return [("relax:harness-" + (o[0] if o else "empty"), "AtomicRelaxation call: " + out[:80], {})]
    try:
        mx, cnt, tot = int(o[1]), int(o[2]), fl(o[3])
        secs = [(int(o[4 + 5 * i]), fl(o[5 + 5 * i]), [fl(x) for x in o[6 + 5 * i:9 + 5 * i]])
                for i in range(cnt)]
    except (ValueError, IndexError):
        return [("relax:unparsable", "unparsable " + out[:80], {})]
    if cnt > mx:
        fails.append(("relax:count-exceeds-max-secondaries", "AtomicRelaxation wrote %d secondaries "
                      "but calc_max_secondaries (the caller's allocation) is %d" % (cnt, mx), {}))
    s = 0.0
    for pid, es, ds in secs:
        s += es
        if pid == 0 and es < ecut:
            fails.append(("relax:auger-below-electron-cut", "Auger electron %.17g below the electron "
                          "cut %.17g (gamma cut %.17g)" % (es, ecut, gcut), {}))
        elif pid == 2 and es < gcut:
            fails.append(("relax:photon-below-gamma-cut", "fluorescence photon %.17g below the gamma "
                          "cut %.17g (electron cut %.17g)" % (es, gcut, ecut), {}))
        elif pid not in (0, 2):
            fails.append(("relax:particle-type", "unexpected particle id %d" % pid, {}))
        n = math.sqrt(sum(c * c for c in ds)) if all(map(math.isfinite, ds)) else float("inf")
        if abs(n - 1) > 1e-12:
            fails.append(("relax:direction", "secondary direction not unit: %r" % (ds,), {}))
    if abs(s - tot) > 8 * TWO53 * max(1, cnt) * (abs(tot) + 1e-300):
        fails.append(("relax:energy", "reported relaxation energy %.17g != Σ emitted %.17g"
                      % (tot, s), {}))
    return fails


# --------------------------------------------------------------------------- oracle predicate
def parse_out(o):
    """-> dict(action, e, dir, secs[(pid, e, dir)], dep, size, draws) or None"""
    w = o.split()
    if not w:
        return None
    a = w[0]
    try:
        if a in ("failed", "unchanged"):
            return dict(action=a, size=int(w[1]), draws=int(w[2]), secs=[], dep=0.0, e=None, dir=None)
        i = 1
        r = dict(action=a, e=None, dir=None)
        if a == "scattered":
            r["e"] = fl(w[1])
            r["dir"] = [fl(w[2]), fl(w[3]), fl(w[4])]
            i = 5
        elif a != "absorbed":
            return None
        n = int(w[i])
        i += 1
        secs = []
        for _ in range(n):
            secs.append((int(w[i]), fl(w[i + 1]), [fl(w[i + 2]), fl(w[i + 3]), fl(w[i + 4])]))
            i += 5
        r["secs"] = secs
        r["dep"] = fl(w[i])
        r["size"] = int(w[i + 1])
        r["draws"] = int(w[i + 2])
        return r
    except (ValueError, IndexError):
        return None


def mom(e, mass):
    return math.sqrt(e * (e + 2 * mass)) if e >= 0 else float("nan")


def scale_of(e_in):
    return e_in + 2 * EMASS


# electron density of the fixture's Cu (0.141 mol/cm³, Z = 29) times migdal_constant() [1/MeV² · MeV²]
DENSITY_FACTOR_CU = 0.141 * 6.02214076e23 * 29 * 4 * math.pi * 2.8179403262e-13 * 3.8615926796e-11 ** 2


def brems_rounding(e_in, cut):
    """rounding of exp(log(kmin²)) − k_dc² at the lower limit kmin² = cut² + k_dc² of the
    SB / relativistic photon-energy samplers (k_dc² = density correction)"""
    dc = DENSITY_FACTOR_CU * (e_in + EMASS) ** 2
    kmin = cut * cut + dc
    return 64 * TWO53 * kmin * max(1.0, abs(math.log(kmin)))


def bad_rotate_axis(d):
    """incident direction in the branch of rotate() that drops the sign of sin φ"""
    s = math.sqrt(max(0.0, 1 - d[2] * d[2]))
    return 0 < s < 0.005 and d[1] < 0


def judge(name, line, out):
    """evaluate the property's predicate on one real interaction; returns list of (key, what, info)"""
    m = ORACLE_MODELS[name]
    w = line.split()
    cap, size = int(w[2]), int(w[3])
    e_in, d_in = fl(w[4]), [fl(w[5]), fl(w[6]), fl(w[7])]
    cut_e, cut_g, cut_p = fl(w[8]), fl(w[9]), fl(w[10])
    cut = cut_g if m["own"] == "g" else cut_e      # the cut bounding the model's own sampling
    cut_of = {0: cut_e, 1: cut_p, 2: cut_g}
    fails = []

    def bad(key, what, **info):
        fails.append((name + ":" + key, what, info))

    if out in ("script-exhausted",):
        return fails
    if out.startswith(("failed-", "exception", "wrote-past")) or out == "bad-op":
        bad("harness-" + out.split()[0], "interactor call: " + out)
        return fails
    r = parse_out(out)
    if r is None:
        bad("unparsable", "unparsable output " + out[:80])
        return fails
    free = cap - size
    fam = ("kn" if name == "kn" else "gg" if name == "gg" else "brems" if name[:2] in ("sb", "rb", "cb")
           else "pair" if name.startswith("bh") else "ioni" if m["thr"] in ("cut", "bragg") and m["mom"]
           else "mubrems" if name.startswith("mubrems") else "other")
    if r["action"] == "failed":
        if m["need"] == 0 or free >= m["need"]:
            bad("spurious-failure", "failed although %d slots were free (needs %d)" % (free, m["need"]))
        if r["size"] != size:
            bad("failure-changed-size", "allocator size %d -> %d on failure" % (size, r["size"]))
        return fails
    if r["action"] == "unchanged":
        if not name.startswith(("bb", "mubb", "bragg", "icru")):
            bad("unexpected-unchanged", "unchanged outcome")
        if r["size"] != size:
            bad("unchanged-allocated", "allocator size changed on unchanged outcome")
        return fails
    if m["need"] > 0 and free < (1 if name.startswith("perelax") else m["need"]):
        bad("no-failure", "storage exhausted (%d free, needs %d) but outcome is %s"
            % (free, m["need"], r["action"]))
        return fails
    if (r["action"] == "scattered") != m["scattered"]:
        bad("action", "unexpected action " + r["action"])
    if r["size"] - size != (m["need"] if m["need"] else 0) and not name.startswith("perelax"):
        bad("alloc-size", "allocator advanced by %d, expected %d" % (r["size"] - size, m["need"]))
    if len(r["secs"]) > r["size"] - size:
        bad("secondaries-outside-allocation", "more secondaries than allocated")
    mass_in = MASS[m["inc"]]
    # finiteness / ranges
    vals = [r["dep"]] + ([r["e"]] if r["e"] is not None else []) + [s[1] for s in r["secs"]]
    if any((not math.isfinite(v)) or v < 0 for v in vals):
        # limit-rounding patterns (known findings): the sampled secondary energy is within a few
        # ulp of a kinematic limit, so the complementary energy rounds just below zero
        lim = {"brems": 4, "mubrems": 4, "pair": 8}.get(fam, 0) * math.ulp(e_in)
        if lim and all(math.isfinite(v) and v >= -lim for v in vals):
            what = ("photon energy within 4 ulp(T) above the incident kinetic energy T (upper limit "
                    "of the sampling interval)" if fam in ("brems", "mubrems") else
                    "ε within rounding of ε₀ = m_e/E (lower kinematic limit): ε·E − m_e < 0")
            fails.append(("endpoint-negative-energy:" + fam, "%s: kinetic energy %.3g < 0: %s"
                          % (name, min(vals), what), dict(values=vals)))
        else:
            bad("energy-range", "non-finite or negative energy", values=vals)
        return fails
    scale = e_in + 2 * EMASS
    # energy conservation
    total = r["dep"] + (r["e"] if r["action"] == "scattered" else 0.0)
    for pid, es, _ in r["secs"]:
        total += es + (2 * EMASS if pid == 1 else 0.0)
    e_avail = e_in + (2 * EMASS if name == "gg" else 0.0)
    if abs(total - e_avail) > 16 * TWO53 * scale:
        bad("energy", "energy not conserved: in %.17g out %.17g" % (e_avail, total),
            residual=total - e_avail)
    # directions
    def unit_err(v):
        return abs(math.sqrt(sum(c * c for c in v)) - 1.0) if all(map(math.isfinite, v)) else float("inf")
    def at_angular_limit():
        """the polar cosine that the interactor computes is, in exact arithmetic, within rounding
        of ±1 because the sampled energy is within a few ulp of a kinematic limit; returns a
        description or None"""
        if fam == "kn" and r["e"] is not None:
            k = e_in / EMASS
            eps0 = 1 / (1 + 2 * k)
            eps = r["e"] / e_in
            if eps - eps0 <= 8 * 2.0 ** -52 * eps:
                return "ε = E'/E = %.17g within 8 ulp of ε₀ = %.17g (back-scatter limit)" % (eps, eps0)
        if fam == "gg" and r["secs"]:
            tau = e_in / EMASS
            half = 0.5 * math.sqrt(tau / (tau + 2))
            eps = r["secs"][0][1] / (e_in + 2 * EMASS)
            de = min(eps - (0.5 - half), (0.5 + half) - eps)
            if de <= 8 * TWO53 * max(1.0, tau + 2):
                return "ε = %.17g within rounding of the end of [½−s, ½+s] (|cos θ| = 1)" % eps
        if fam == "ioni" and r["secs"] and r["e"] is not None:
            big_m, me, te = mass_in, EMASS, r["secs"][0][1]
            if big_m == me:
                tmax = e_in
            else:
                ratio, tau = me / big_m, e_in / big_m
                tmax = 2 * me * tau * (tau + 2) / (1 + 2 * (tau + 1) * ratio + ratio * ratio)
            p2 = e_in * e_in + 2 * big_m * e_in
            dd = big_m * big_m + 2 * (e_in + big_m) * me + me * me
            sin2 = dd * max(tmax - te, 0.0) / ((te + 2 * me) * p2)
            if sin2 <= 32 * TWO53:
                return ("delta-ray energy %.17g within rounding of the kinematic limit T_max = %.17g "
                        "(1 − cos²θ = %.3g)" % (te, tmax, sin2))
        return None

    def bad_dir(key, what):
        why = at_angular_limit()
        if why:
            fails.append(("endpoint-nan-direction:" + fam, "%s: %s — %s" % (name, what, why), {}))
        else:
            bad(key, what)
    if r["action"] == "scattered" and r["e"] > 0 and unit_err(r["dir"]) > 1e-12:
        bad_dir("direction", "outgoing direction not unit: %r" % (r["dir"],))
    for idx, (pid, es, ds) in enumerate(r["secs"]):
        if pid == -1:
            if not (name == "kn" and es == 0.0):
                bad("undefined-secondary", "secondary with undefined particle id")
            continue
        if pid not in m["sec"]:
            bad("particle-type", "unexpected secondary particle id %d" % pid)
        if unit_err(ds) > 1e-12:
            bad_dir("secondary-direction", "secondary direction not unit: %r (E=%.6g)" % (ds, es))
        thr = m["thr"]
        if thr == "cut" and pid != (2 if m["own"] == "g" else 0) and es < cut_of.get(pid, 0.0):
            bad("threshold-by-type", "secondary of particle id %d with %.17g below its own "
                "production cut %.17g" % (pid, es, cut_of[pid]))
        if thr == "cut" and pid != (2 if m["own"] == "g" else 0):
            continue
        if thr == "kn" and es < 1e-4:
            bad("threshold", "electron below the model's 1e-4 MeV cutoff: %.17g" % es)
        if thr == "cut" and es < cut:
            if fam == "brems" and cut * cut - es * es <= brems_rounding(e_in, cut):
                fails.append(("brems-photon-below-cut-rounding", "%s: photon %.17g below production "
                              "cut %.17g (relative %.2g): k² = exp(log(cut² + k_dc²)) − k_dc² within "
                              "rounding of cut² (lower limit of the sampling interval)"
                              % (name, es, cut, (cut - es) / cut), {}))
            elif fam == "ioni" and cut - es <= 4 * math.ulp(cut):
                fails.append(("endpoint-below-cut:ioni", "%s: delta ray %.17g within 4 ulp below the "
                              "production cut %.17g (lower limit of the sampling interval)"
                              % (name, es, cut), {}))
            else:
                bad("threshold", "secondary %.17g below production cut %.17g" % (es, cut))
        if thr == "relax" and idx > 0 and es < cut_of.get(pid, 0.0):
            bad("threshold-by-type", "relaxation secondary (particle id %d) %.17g below its own "
                "production cut %.17g (cuts e=%.6g γ=%.6g)" % (pid, es, cut_of[pid], cut_e, cut_g))
    if name == "kn" and r["secs"] and r["secs"][0][0] == -1 and not (0 <= r["dep"] < 1e-4):
        bad("threshold", "cleared electron but deposit %.17g not below cutoff" % r["dep"])
    # momentum (all products returned)
    if m["mom"] and not fails:
        emitted = [s for s in r["secs"] if s[0] != -1]
        if not (name == "kn" and not emitted):
            p_in = mom(e_in, mass_in)
            tot = [0.0, 0.0, 0.0]
            if r["action"] == "scattered":
                p = mom(r["e"], mass_in)
                tot = [p * c for c in r["dir"]]
            for pid, es, ds in emitted:
                p = mom(es, MASS[pid])
                tot = [t + p * c for t, c in zip(tot, ds)]
            res = math.sqrt(sum((t - p_in * c) ** 2 for t, c in zip(tot, d_in)))
            if res > 1e-7 * (p_in + 1e-300) and p_in > 0:
                if name == "gg":
                    key = "eplusgg-momentum"
                elif bad_rotate_axis(d_in):
                    key = "rotate-near-z-negative-y"
                else:
                    key = name + ":momentum"
                fails.append((key, "momentum not conserved by %s: |Σp_out − p_in| / p_in = %.3g"
                              % (name, res / p_in), dict(residual=res, p_in=p_in)))
    return fails


def check_rotate(rng, exe, n):
    """rotate()/ExitingDirectionSampler keep the polar cosine with respect to the axis"""
    lines, meta = [], []
    for _ in range(n):
        d = gen_dir(rng)
        c = rng.choice([rng.unit() * 2 - 1, rng.unit() * 2 - 1, 0.0, 0.5])
        u = rng.unit()
        lines.append("exitdir %s" % " ".join(map(hx, [c] + d + [u])))
        meta.append((c, d))
    _, out = vlib.run_lines([exe], lines)
    fails = []
    for l, (c, d), o in zip(lines, meta, out):
        try:
            v = [fl(x) for x in o.split()]
        except ValueError:
            fails.append(("exitdir:unparsable", "unparsable " + o, l, o, {}))
            continue
        if len(v) != 3 or not all(map(math.isfinite, v)):
            fails.append(("exitdir:non-finite", "ExitingDirectionSampler result not finite", l, o, {}))
            continue
        dot = sum(a * b for a, b in zip(v, d))
        if abs(dot - c) > 3e-8:
            key = "rotate-near-z-negative-y" if bad_rotate_axis(d) else "exitdir:polar-cosine"
            fails.append((key, "ExitingDirectionSampler{cosθ=%.6g, dir=%r}: result·dir = %.9g "
                          "(|Δ| = %.3g)" % (c, d, dot, abs(dot - c)), l, o,
                          {"expected_cos": c, "actual_cos": dot, "dir": d}))
    return len(lines), fails


# --------------------------------------------------------------------------- run
def run(ctx):
    quick = ctx.quick()
    ps = common.proof_side(ctx, "C04")
    broken = list(ps["broken"])
    numself.run(ctx, n=(10000 if quick else 100000))
    exe, log, _ = vlib.build_harness("interact", LIBS)
    if exe is None:
        ctx.violation("harness-build", "harness/interact.cc no longer builds against /repo",
                      {"correspondence": "harness build", "log": log[-2000:]}, found_input=False)
        ctx.coverage.update({"evaluations": 0, "distinct_nontrivial": 0,
                             "explanation": "harness build failed"})
        return LEVEL
    rng = ctx.rng
    _, oc = vlib.run_lines([exe], ["consts2"])
    parts = [x.split() for x in (oc[0] if oc else "").split("|")]
    if len(parts) != 3 or len(parts[0]) != 9 or len(parts[1]) != 2 or len(parts[2]) != 27:
        ctx.violation("harness-consts2", "harness op consts2 gave no oracle constants",
                      {"output": oc[:1]}, found_input=False)
        ctx.coverage.update({"evaluations": 0, "distinct_nontrivial": 0,
                             "explanation": "oracle constants missing"})
        return LEVEL
    ORACLE_CONSTS.update({"mubrems": " ".join(parts[0]), "ray": " ".join(parts[1]),
                          "rayp": [" ".join(parts[2][9 * i:9 * i + 9]) for i in range(3)]})
    # ---- correspondence: model vs implementation, exact
    n_corr = 20000 if quick else 150000
    lines = ["consts"]
    corpus = vlib.os.path.join(vlib.CORPUS, "C04")
    if vlib.os.path.isdir(corpus):
        for fn in sorted(vlib.os.listdir(corpus)):
            if fn.endswith(".ops"):
                lines += [l.rstrip("\n") for l in open(vlib.os.path.join(corpus, fn))
                          if l.strip() and not l.startswith("#")]
    for _ in range(n_corr):
        lines.append(gen_model_line(rng, rng.choice(MODELLED[:8] * 3 + MODELLED[8:])))
    lines += gen_coulomb_lines(rng, exe, 1500 if quick else 15000)
    lines += [l for l in MALFORMED if not l.startswith("x")]
    diverged, kinds, distinct = [], {}, set()
    outcome_mix = {}
    if ps["model_ok"]:
        _, oh = vlib.run_lines([exe], lines)
        _, om = vlib.run_lines([vlib.model_exe("C04")], lines)
        for i, l in enumerate(lines):
            a = oh[i] if i < len(oh) else "<missing>"
            b = om[i] if i < len(om) else "<missing>"
            k = (l.split() or ["empty"])[0]
            kinds[k] = kinds.get(k, 0) + 1
            a0 = (a.split() or ["?"])[0]
            tag = k + ":" + ("vec" if len(a0) == 16 and all(c in "0123456789abcdef" for c in a0)
                             else a0)
            outcome_mix[tag] = outcome_mix.get(tag, 0) + 1
            if a not in ("bad-op", "script-exhausted"):
                distinct.add(l)
            if a != b:
                wa, wb = a.split(), b.split()
                same = len(wa) == len(wb) and all(
                    x == y or (numself.is_nan_bits(x) and numself.is_nan_bits(y))
                    for x, y in zip(wa, wb))
                if not same:
                    diverged.append({"op": l, "impl": a, "model": b})
    else:
        broken.append("model driver did not build")
    if diverged:
        broken.append("correspondence: model and implementation differ on %d ops (first: %s)"
                      % (len(diverged), diverged[0]["op"][:70]))
    # ---- impl-side oracle on every interactor (more when something is broken)
    mult = 3 if broken else 1
    n_or = (24000 if quick else 200000) * mult
    names = sorted(ORACLE_MODELS)
    olines = []
    if vlib.os.path.isdir(corpus):      # replays of past findings first (corpus/C04/*.xops)
        for fn in sorted(vlib.os.listdir(corpus)):
            if fn.endswith(".xops"):
                olines += [l.rstrip("\n") for l in open(vlib.os.path.join(corpus, fn))
                           if l.startswith("x ") and l.split()[1] in ORACLE_MODELS]
    n_xcorpus = len(olines)
    for i in range(n_or):
        name = names[i % len(names)] if i < 4 * len(names) else rng.choice(names)
        olines.append(gen_oracle_line(rng, name, scripted=rng.chance(1, 3)))
    for d in diverged[:50]:      # diverging inputs first, through the oracle where it applies
        w = d["op"].split()
        if w and w[0] in ("kn", "gg") and "|" in w:
            bar = w.index("|")
            olines.append("x %s %s %s %s %s | u %s" % (w[0], w[1], w[2], " ".join(w[3:bar]), " ".join([hx(1e-3)] * 3),
                                                       " ".join(w[bar + 1:])))
    n_xrelax = (3000 if quick else 40000) * mult
    xlines = [gen_relax_line(rng, "xrelax") for _ in range(n_xrelax)]
    _, oo = vlib.run_lines([exe], olines + xlines)
    xo = oo[len(olines):]
    oo = oo[:len(olines)]
    seen, n_fail, max_draws, omix = set(), 0, {}, {}
    for l, o in zip(xlines, xo + ["<missing>"] * (len(xlines) - len(xo))):
        t = "xrelax:" + (o.split() or ["?"])[0]
        omix[t] = omix.get(t, 0) + 1
        for key, what, info in judge_xrelax(l, o):
            n_fail += 1
            if key not in seen:
                seen.add(key)
                ctx.violation(key, "real AtomicRelaxation: " + what,
                              {"harness": "harness/interact.cc", "op": l, "impl_output": o})
    for l, o in zip(olines, oo + ["<missing>"] * (len(olines) - len(oo))):
        name = l.split()[1]
        r = parse_out(o)
        if r and r.get("draws") is not None and r["draws"] > max_draws.get(name, (-1, ""))[0]:
            max_draws[name] = (r["draws"], l if r["draws"] > 1000 else "")
            if r["draws"] > 20000000 and "| s" in l and (name + ":draws") not in seen:
                seen.add(name + ":draws")
                ctx.violation(name + ":draws", "real interactor (%s) needed %d uniform draws for one "
                              "sample with XorwowRngEngine" % (name, r["draws"]),
                              {"harness": "harness/interact.cc", "op": l, "impl_output": o})
        t = name + ":" + (o.split() or ["?"])[0]
        omix[t] = omix.get(t, 0) + 1
        if o == "<missing>":
            fs = [(name + ":harness-died", "harness produced no output (crash?)", {})]
        else:
            fs = judge(name, l, o)
        for key, what, info in fs:
            n_fail += 1
            if key in seen:
                continue
            seen.add(key)
            w = l.split()
            ctx.violation(key, "real interactor (%s): %s" % (name, what),
                          {"harness": "harness/interact.cc", "op": l, "impl_output": o, "info": info,
                           "incident": {"E": fl(w[4]), "dir": [fl(w[5]), fl(w[6]), fl(w[7])],
                                        "cut_e": fl(w[8]), "cut_g": fl(w[9]), "cut_p": fl(w[10]),
                                        "cap": int(w[2]), "size": int(w[3])}})
    n_rot, rfails = check_rotate(rng, exe, 6000 if quick else 50000)
    for key, what, l, o, info in rfails:
        n_fail += 1
        if key in seen:
            continue
        seen.add(key)
        ctx.violation(key, "real code: " + what, {"harness": "harness/interact.cc", "op": l,
                                                  "impl_output": o, "info": info})
    if broken and not ctx.violations:
        ctx.violation("unproved", "; ".join(broken)[:600],
                      {"no_longer_checks": broken, "diverging_ops": diverged[:3]}, found_input=False)
    if not quick and ps["build"]["ok"]:
        common.leanchecker(ctx, ["CelerVerif.Props.C04"])
    ctx.assumptions += [
        "theorems are about the real-number reading of Model/Interact.lean; the same definitions "
        "executed at Float equal the real interactors' outputs bit-for-bit on every op compared",
        "scripted uniforms are canonical values in [0,1); unit incident direction; documented "
        "preconditions (E > 2·cut Møller, E > cut Bhabha, E >= 2 m_e Bethe–Heitler) are hypotheses",
        "rotOK (not a documented precondition of rotate): the momentum theorems exclude incident "
        "directions with 0 < sinθ < 0.005 and negative y, where rotate() loses the sign of sin φ "
        "and the real code fails (known finding rotate-near-z-negative-y; modelled as written)",
        "energy samplers backed by imported tables (Seltzer–Berger, relativistic brems, Wentzel, "
        "Rayleigh form factors, Livermore shells/relaxation), Bethe–Heitler above 2 MeV, MuBB, "
        "Bragg/ICRU73QO, muon bremsstrahlung: oracle only; neutron elastic: not driven (no fixture)",
        "fixture materials/elements: Cu, K, Pb, PbWO of the repository's own tests; Livermore PE / "
        "relaxation data exist only for K (Z=19), Seltzer–Berger only for Cu (Z=29) in "
        "test/celeritas/data; relaxation logic for other tables is covered by synthetic "
        "transition tables (relax / xrelax ops)",
        "production cuts are independent per particle type (γ below/above e⁻, one of them zero); "
        "a secondary is judged by its own type's cut; no interactor documents a positron "
        "threshold (pair production applies none), so positrons are only checked for E ≥ 0",
        "relaxation: count ≤ calc_max_secondaries is checked on the real code (oracle, sentinel "
        "past the request), not proved (MaxSecondariesCalculator not modelled)",
    ]
    ctx.coverage.update({
        "evaluations": len(lines) + len(olines) + n_rot + n_xrelax, "distinct_nontrivial": len(distinct),
        "rule": "correspondence ops: every modelled interactor with log-uniform energies over its "
                "applicability interval incl. both end points, directions on the whole sphere incl. "
                "axes/poles, cuts, allocator capacity 0 / k-1 / ample, scripts incl. extreme "
                "uniforms; non-trivial = answered neither bad-op nor script-exhausted; distinct = "
                "distinct op lines",
        "op_mix": dict(sorted(kinds.items())), "outcome_mix": dict(sorted(outcome_mix.items())),
        "interactor_model_status": INTERACTOR_MODEL_STATUS,
        "oracle_cases": len(olines) + n_rot + n_xrelax, "oracle_corpus_ops": n_xcorpus, "oracle_failures": n_fail,
        "oracle_outcomes": dict(sorted(omix.items())), "max_draws_seen": {k: v[0] for k, v in sorted(max_draws.items())},
        "max_draws_ops": {k: v[1] for k, v in sorted(max_draws.items()) if v[1]},
        "diverging_ops": len(diverged), "samples": lines[1:4] + olines[:2],
        "correspondence_broken": broken,
        "explanation": "proved at ℝ for the modelled interactors (see theorems); table-driven "
                       "samplers and rounding are covered by the impl-side oracle only; momentum "
                       "conservation is false for EPlusGGInteractor as written (negation proved); "
                       "a sampled energy within a few ulp of a kinematic limit (ε₀, ε_max, "
                       "T_max, the cut, T) gives NaN directions / 1-ulp threshold and sign "
                       "violations in several interactors (keys endpoint-*, classified by the "
                       "physical degeneracy of the OUTPUT, not by the script).",
    })
    return LEVEL


def replay(ctx, data):
    exe, log, _ = vlib.build_harness("interact", LIBS)
    r = data["replay"]
    if "op" in r:
        _, o = vlib.run_lines([exe], [r["op"]])
        print("op:", r["op"])
        print("impl now:", o, " recorded:", r.get("impl_output"))
        w = r["op"].split()
        if w and w[0] == "xrelax" and o:
            fs = judge_xrelax(r["op"], o[0])
            print("oracle:", fs if fs else "no failure")
            return 1 if fs else 0
        if w and w[0] == "x" and o:
            fs = judge(w[1], r["op"], o[0])
            print("oracle:", fs if fs else "no failure")
            return 1 if fs else 0
    else:
        print(vlib.json.dumps(r, indent=1))
    return 0
