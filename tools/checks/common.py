"""Steps shared by all property checks: the proof side and the pairing of model and harness."""
import os
import re

import vlib

TRUSTED_BASE = [
    "Lean 4.33 kernel (leanchecker re-check in the thorough tier)",
    "axioms allowed in #print axioms: propext, Classical.choice, Quot.sound (no native_decide, "
    "no bv_decide, no sorry; enforced by audit + grep on every run)",
    "tools/translate.py (regex extraction of tables/constants from the current /repo source; "
    "cross-checked against the values dumped by the running code where stated)",
    "the C++ harness, the op generators and the diff (correspondence = differential testing)",
    "g++ 12 / libstdc++ / glibc libm / OpenMP runtime; Lean runtime for the executable model",
]


def proof_side(ctx, prop, extra_targets=()):
    """translate -> lake build Props.<prop> (+driver) -> axiom audit -> forbidden-token grep.
    Returns dict(ok, broken:list[str], obligations, discharged, ...) and fills ctx.coverage."""
    res = vlib.lean_build(["celer_model_" + prop.lower(), "CelerVerif.Props." + prop]
                          + list(extra_targets))
    broken = []
    for e in vlib.translate.errors_for(prop, res["translate_errors"]):
        broken.append("translator: " + e)
    if not res["ok"]:
        names = failing_theorems(res)
        broken.append("lake build failed at " + ", ".join(res["failed_at"] or res["failed_modules"]
                                                          or ["?"])
                      + (" (" + ", ".join(names) + ")" if names else ""))
    obligations = discharged = 0
    details = {}
    if res["ok"]:
        obligations, discharged, details, bad, _ = vlib.lean_audit(prop)
        for b in bad:
            broken.append(f"axiom audit: {b} depends on {details.get(b)}")
    else:
        try:
            obligations = len(vlib.prop_theorems(prop))
        except OSError:
            obligations = 0
    hits = vlib.grep_forbidden(prop)
    for h in hits:
        broken.append("forbidden token: " + h)
    model_ok = os.path.exists(vlib.model_exe(prop)) and (res["ok"] or model_built(res))
    ctx.coverage.update({
        "obligations": obligations, "discharged": discharged if not hits else 0,
        "checker_cmd": f"cd /verif/lean && lake build CelerVerif.Props.{prop} && lake env lean "
                       f"/verif/.build/audit/{prop}.lean   # #print axioms of every theorem",
        "theorems": details, "trusted_base": list(TRUSTED_BASE),
        "regenerated_from_source": res["regenerated"], "lean_build_s": round(res["wall_s"], 1),
    })
    return {"ok": not broken, "broken": broken, "build": res, "model_ok": model_ok,
            "obligations": obligations, "discharged": discharged}


def model_built(res):
    return not any(m.startswith("Driver") or ".Model." in m or ".Generated." in m
                   for m in res["failed_modules"])


def failing_theorems(res):
    """name the theorems enclosing the reported error positions"""
    names = []
    for pos in res["failed_at"]:
        f, line = pos.rsplit(":", 1)
        p = os.path.join(vlib.LEAN, f)
        try:
            src = open(p).read().split("\n")
        except OSError:
            continue
        for k in range(min(int(line), len(src)) - 1, -1, -1):
            m = re.match(r"\s*(?:theorem|lemma|def|example)\s+(\S+)", src[k])
            if m:
                names.append(m.group(1))
                break
    return sorted(set(names))


def leanchecker(ctx, modules):
    """thorough tier: independent re-check of the compiled .olean files"""
    out = {}
    for m in modules:
        rc, log = vlib.sh(["lake", "env", "leanchecker", m], cwd=vlib.LEAN, timeout=3600)
        out[m] = (rc == 0)
        if rc != 0:
            ctx.violation("leanchecker-" + m, f"leanchecker rejects {m}", {"log": log[-2000:]},
                          found_input=False)
    ctx.coverage["leanchecker"] = out
    return out
