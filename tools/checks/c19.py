"""C19 — geometry input survives a JSON round trip unchanged."""
import os
import struct

import vlib
from checks import common

LEVEL = "proof"
HARNESS = {"orangeio": ["corecel", "geocel", "orange"]}
MANIFEST = {
    "category": "proof",
    "technique": "Lean 4 proof of decode(encode x) = x over an executable model of every "
                 "to_json/from_json of the ORANGE input (structural induction over universes/"
                 "volumes/surfaces/daughters, logic-string parser/printer, label splitting, "
                 "bbox inf<->max), key inventories/enum tables regenerated from the source; "
                 "differential correspondence of the model with the real nlohmann-based code",
    "text": "Theorem: for every OrangeInput satisfying the explicit decidable predicate Valid, "
            "from_json(to_json(x)) = x (in memory and through dump()/parse() text), for any "
            "number/size of universes, volumes, surfaces, daughters; for construction-API inputs "
            "(obz set) the result is x with every obz reset. Every conjunct of Valid has a proved "
            "negation witness replayed on the real code. Losses that construction-API programs "
            "(harness op `proto`: UnitProto/InputBuilder scenarios) or bundled files actually "
            "produce are violations (involute-unreadable, obz-dropped, label-at-sign, "
            "null-bbox-canonicalised); the others (+-DBL_MAX bbox, zero Translation in a rect "
            "array, null unit bbox, rewritten background volume, empty logic, non-finite doubles) "
            "are outside the statement and only counted. The model is tied to the code by exact "
            "comparison of encode / decode / round trip on random structured inputs (all surface "
            "types, transforms, rect arrays, labels, tolerances, legacy keys, malformed JSON), "
            "every bundled .org.json and the construction-API scenarios; tracking (128 rays) is "
            "compared on OrangeParams built before/after the round trip.",
    "design_ref": "DESIGN.md §6 C19",
    "note": "Doubles are opaque bit patterns; nlohmann's text<->double conversion is trusted "
            "(finite doubles survive dump/parse exactly; checked on every sampled value). "
            "size_type = std::size_t (host build). Navigation identity is checked on the real "
            "code (OrangeParams from both inputs, 128 rays) for the bundled files and the "
            "construction-API scenarios; random generated inputs are not valid geometries.",
}
DATA = os.path.join(vlib.REPO, "test", "orange", "data")
W = (1 << 64) - 1
LTRUE, LOR, LAND, LNOT = W - 4, W - 3, W - 2, W - 1
Z_NAMED = [1, 2, 3, 4, W - 1, W]          # background media array hole implicit_exterior exterior
POS_INF, NEG_INF = 0x7FF0000000000000, 0xFFF0000000000000
POS_MAX, NEG_MAX = 0x7FEFFFFFFFFFFFFF, 0xFFEFFFFFFFFFFFFF
SURF = [("px", 1), ("py", 1), ("pz", 1), ("cxc", 1), ("cyc", 1), ("czc", 1), ("sc", 1), ("cx", 3),
        ("cy", 3), ("cz", 3), ("p", 4), ("s", 4), ("kx", 4), ("ky", 4), ("kz", 4), ("sq", 7),
        ("gq", 10)]
UNREADABLE = [("inv", 6)]


def load_tables():
    """take surface types / tokens from the CURRENT source (same extractor as the translator),
    so that a new surface type or token is generated too; constants above are the fallback"""
    global SURF, UNREADABLE, LTRUE, LOR, LAND, LNOT
    try:
        from gen import orangeio as g
        d = g.extract()
        allsurf = list(zip(d["surf_names"], d["surf_sizes"], d["surf_readable"]))
        SURF = [(n, k) for n, k, rd in allsurf if rd]
        UNREADABLE = [(n, k) for n, k, rd in allsurf if not rd] or UNREADABLE
        t = d["toks"]
        LTRUE, LOR, LAND, LNOT = t["ltrue"], t["lor"], t["land"], t["lnot"]
    except Exception:  # the translator error is reported by proof_side
        pass


# ------------------------------------------------------------------ CJ text
class D:
    """a double, by bit pattern"""
    __slots__ = ("b",)

    def __init__(self, b):
        self.b = b & W

    def __eq__(self, o):
        return isinstance(o, D) and o.b == self.b

    def __repr__(self):
        return "#%016x" % self.b


def dv(x):
    return D(struct.unpack(">Q", struct.pack(">d", float(x)))[0])


def esc(s):
    out = ['"']
    for ch in s:
        o = ord(ch)
        if ch == '"':
            out.append('\\"')
        elif ch == "\\":
            out.append("\\\\")
        elif ch == "\n":
            out.append("\\n")
        elif ch == "\t":
            out.append("\\t")
        elif o < 0x20 or o > 0x7e:
            out.append("\\u%04x" % o)
        else:
            out.append(ch)
    out.append('"')
    return "".join(out)


def cj(o):
    if o is None:
        return "null"
    if o is True:
        return "true"
    if o is False:
        return "false"
    if isinstance(o, int):
        return str(o)
    if isinstance(o, D):
        return repr(o)
    if isinstance(o, str):
        return esc(o)
    if isinstance(o, list):
        return "[" + ",".join(cj(x) for x in o) + "]"
    if isinstance(o, dict):
        return "{" + ",".join(esc(k) + ":" + cj(o[k]) for k in sorted(o)) + "}"
    raise TypeError(o)


def parse_cj(s):
    pos = 0

    def val():
        nonlocal pos
        c = s[pos]
        if s.startswith("null", pos):
            pos += 4
            return None
        if s.startswith("true", pos):
            pos += 4
            return True
        if s.startswith("false", pos):
            pos += 5
            return False
        if c == "#":
            v = D(int(s[pos + 1:pos + 17], 16))
            pos += 17
            return v
        if c == '"':
            return string()
        if c == "[":
            pos += 1
            out = []
            if s[pos] == "]":
                pos += 1
                return out
            while True:
                out.append(val())
                if s[pos] == ",":
                    pos += 1
                elif s[pos] == "]":
                    pos += 1
                    return out
                else:
                    raise ValueError("bad array at %d" % pos)
        if c == "{":
            pos += 1
            out = {}
            if s[pos] == "}":
                pos += 1
                return out
            while True:
                k = string()
                if s[pos] != ":":
                    raise ValueError("bad object at %d" % pos)
                pos += 1
                out[k] = val()
                if s[pos] == ",":
                    pos += 1
                elif s[pos] == "}":
                    pos += 1
                    return out
                else:
                    raise ValueError("bad object at %d" % pos)
        e = pos + 1 if c == "-" else pos
        while e < len(s) and s[e].isdigit():
            e += 1
        v = int(s[pos:e])
        pos = e
        return v

    def string():
        nonlocal pos
        assert s[pos] == '"'
        pos += 1
        out = []
        while s[pos] != '"':
            if s[pos] == "\\":
                n = s[pos + 1]
                if n == "u":
                    out.append(chr(int(s[pos + 2:pos + 6], 16)))
                    pos += 6
                else:
                    out.append({"n": "\n", "t": "\t"}.get(n, n))
                    pos += 2
            else:
                out.append(s[pos])
                pos += 1
        pos += 1
        return "".join(out)

    v = val()
    if pos != len(s):
        raise ValueError("trailing text")
    return v


def first_path(a, b, path="x"):
    """path of the first difference between two parsed CJ values (None if equal)"""
    if type(a) is not type(b):
        return path
    if isinstance(a, list):
        if len(a) != len(b):
            return path + ".len"
        for i, (x, y) in enumerate(zip(a, b)):
            p = first_path(x, y, f"{path}[{i}]")
            if p:
                return p
        return None
    if isinstance(a, dict):
        if sorted(a) != sorted(b):
            return path + ".keys"
        for k in sorted(a):
            p = first_path(a[k], b[k], f"{path}.{k}")
            if p:
                return p
        return None
    return None if a == b else path


# ------------------------------------------------------------------ generators (S values)
NICE = [0.0, 1.0, -1.0, 0.5, 2.0, -2.5, 10.0, 100.0, 1e-3, -1e-8, 3.25, 1e10, -7.0, 1e300, 5e-324]


def g_fin(r):
    """a finite double that is neither zero-ish special nor +-DBL_MAX"""
    k = r.below(4)
    if k == 0:
        return dv(r.choice(NICE))
    if k == 1:
        return dv((r.below(2001) - 1000) / 8.0)
    while True:
        b = r.next() & W
        if (b & 0x7FFFFFFFFFFFFFFF) < POS_MAX:
            return D(b)


def g_word(r, allow_at=False):
    alpha = "abcdeXYZ019._+-[] /" + ("@" if allow_at else "") + ("é\"\\" if r.chance(1, 8) else "")
    return "".join(r.choice(alpha) for _ in range(r.below(9)))


def g_label(r):
    """label inside Valid: no '@' in ext, and no '@' in name when ext is empty"""
    ext = g_word(r) if r.chance(1, 2) else ""
    name = g_word(r, allow_at=(ext != "" and r.chance(1, 3)))
    return [name, ext]


def g_box(r, allow_inf=True):
    lo, hi = [], []
    for _ in range(3):
        a, b = g_fin(r), g_fin(r)
        ka, kb = key(a.b), key(b.b)
        if ka > kb:
            a, b = b, a
        if allow_inf and r.chance(1, 6):
            a = D(NEG_INF)
        if allow_inf and r.chance(1, 6):
            b = D(POS_INF)
        lo.append(a)
        hi.append(b)
    return [lo, hi]


def key(b):
    return b if b < (1 << 63) else -(b & 0x7FFFFFFFFFFFFFFF)


NULLBOX = [[D(POS_INF)] * 3, [D(NEG_INF)] * 3]
INFBOX = [[D(NEG_INF)] * 3, [D(POS_INF)] * 3]
OBZ0 = [NULLBOX, NULLBOX, W]


def g_vbox(r):
    k = r.below(5)
    return INFBOX if k == 0 else NULLBOX if k == 1 else g_box(r)


def g_transform(r, rect=False):
    k = r.below(2 if rect else 3)
    if k == 0:
        return []
    if k == 1:
        t = [g_fin(r) for _ in range(3)]
        if all((x.b & 0x7FFFFFFFFFFFFFFF) == 0 for x in t):
            t[0] = dv(1.0)
        return t
    return [g_fin(r) for _ in range(12)]


def g_logic(r, nfaces):
    n = r.range(1, 12)
    out = []
    for _ in range(n):
        k = r.below(6)
        if k < 3:
            out.append(r.below(max(nfaces, 1)) if r.chance(7, 8) else r.choice(
                [9, 10, 99, 100, 12345678901234567890, W - 7, 4294967295, 4294967296]))
        else:
            out.append(r.choice([LTRUE, LOR, LAND, LNOT]))
    return out


def g_volume(r, nsurf):
    z = r.choice([2, 2, 2, 3, 4, W - 1, W, 1])
    faces = sorted({r.below(nsurf) for _ in range(r.below(5))}) if nsurf else []
    if r.chance(1, 10):
        faces.append(r.choice([W, 4294967295, 1 << 40]))
    flags = r.choice([0, 0, 1, 2, 3, 4, 8, 15, W, 1 << 33])
    if z == 1:
        return [g_label(r), faces, [LTRUE, LNOT], NULLBOX, OBZ0, flags, z]
    return [g_label(r), faces, g_logic(r, nsurf), g_vbox(r), OBZ0, flags, z]


def g_surface(r):
    n, k = r.choice(SURF)
    return [n, [g_fin(r) for _ in range(k)]]


def g_unit(r, nuniv):
    ns = r.below(7)
    surfaces = [g_surface(r) for _ in range(ns)]
    nv = r.range(1, 5) if r.chance(9, 10) else 0
    volumes = [g_volume(r, ns) for _ in range(nv)]
    bbox = INFBOX if r.chance(1, 5) else g_box(r)
    keys = sorted({r.choice([r.below(max(nv, 1)), r.below(50), W - r.below(3)])
                   for _ in range(r.below(4))})
    daughters = [[k, [r.below(nuniv + 2), g_transform(r)]] for k in keys]
    sl = [g_label(r) for _ in range(ns)] if r.chance(2, 3) else []
    return ["unit", g_label(r), surfaces, volumes, bbox, daughters, sl]


def g_grid(r):
    n = r.range(2, 5)
    xs = sorted({(r.below(400) - 200) / 4.0 for _ in range(n + 2)})[:n]
    while len(xs) < 2:
        xs.append(xs[-1] + 1.0)
    return [dv(x) for x in xs]


def g_rect(r, nuniv):
    nd = r.below(7)
    return ["rect", g_label(r), [g_grid(r), g_grid(r), g_grid(r)],
            [[r.choice([r.below(nuniv + 2), W]), g_transform(r, rect=True)] for _ in range(nd)]]


def g_tol(r):
    k = r.below(4)
    if k == 0:
        return [dv(1.5e-8), dv(1.5e-8)]
    if k == 1:
        return [dv(r.choice([1e-5, 0.5, 1e-12, 5e-324])), dv(r.choice([1e-5, 2.0, 1e300, 1e-300]))]
    rel = D(1 + r.below(0x3FF0000000000000 - 1))
    ab = D(1 + r.below(POS_INF - 1))
    return [rel, ab]


def g_input(r):
    n = r.range(1, 4) if r.chance(19, 20) else 0
    us = [g_rect(r, n) if r.chance(1, 4) else g_unit(r, n) for _ in range(n)]
    return [us, g_tol(r)]


# ---- single-feature departures from Valid: (key, mutated S)  [round trip is NOT the identity]
def first_unit(x, r, need_vol=False, need_surf=False):
    for _ in range(50):
        if not any(u[0] == "unit" and (u[3] or not need_vol) for u in x[0]):
            x[0].append(g_unit(r, len(x[0])))
            continue
        u = r.choice([u for u in x[0] if u[0] == "unit" and (u[3] or not need_vol)])
        return u
    raise RuntimeError


def nonbg_volume(u, r):
    vs = [v for v in u[3] if v[6] != 1]
    if not vs:
        u[3].append([["v", ""], [], [LTRUE], INFBOX, OBZ0, 0, 2])
        if u[6]:
            pass
        vs = [u[3][-1]]
    return r.choice(vs)


def depart(r, x):
    """returns (class key, mutated input); classes are the known ways to leave Valid"""
    k = r.below(15)
    if k == 0:
        v = r.choice(first_unit(x, r, True)[3])
        v[4] = [g_box(r), g_box(r), r.below(5)]
        return "obz-dropped", x
    if k == 1:
        u = first_unit(x, r, True)
        b = g_box(r, allow_inf=False)
        if r.chance(1, 2):
            b[1][r.below(3)] = D(POS_MAX)
        else:
            b[0][r.below(3)] = D(NEG_MAX)
        if r.chance(1, 2):
            u[4] = b
        else:
            nonbg_volume(u, r)[3] = b
        return "bbox-dblmax-to-inf", x
    if k == 2:
        rc = g_rect(r, 2)
        rc[3].append([1, [D(0), D(r.choice([0, 1 << 63])), D(0)]])
        x[0].append(rc)
        return "rect-zero-translation", x
    if k == 3:
        u = first_unit(x, r)
        lab = r.choice([["a@b", ""], ["n", "e@f"], ["@", ""], ["x@", ""], ["", "@"]])
        w = r.below(3)
        if w == 0 or (w == 1 and not u[3]) or (w == 2 and not u[6]):
            u[1] = lab
        elif w == 1:
            r.choice(u[3])[0] = lab
        else:
            u[6][r.below(len(u[6]))] = lab
        return "label-at-sign", x
    if k == 4:
        first_unit(x, r)[4] = r.choice([NULLBOX, [[dv(1), dv(0), dv(0)], [dv(0), dv(1), dv(1)]]])
        return "unit-null-bbox-to-infinite", x
    if k == 5:
        v = nonbg_volume(first_unit(x, r, True), r)
        v[3] = [[dv(2), dv(0), dv(0)], [dv(1), dv(5), dv(5)]]
        return "null-bbox-canonicalised", x
    if k == 6:
        u = first_unit(x, r, True)
        v = r.choice(u[3])
        v[6] = 1
        if r.chance(1, 2):
            v[2], v[3] = [LTRUE], NULLBOX
        else:
            v[2], v[3] = [LTRUE, LNOT], g_box(r)
        return "background-volume-overwritten", x
    if k == 7:
        v = nonbg_volume(first_unit(x, r, True), r)
        v[2], v[5] = [], 2
        return "empty-logic-unreadable", x
    if k == 8:
        u = first_unit(x, r)
        n_, k_ = r.choice(UNREADABLE)
        u[2].append([n_, [g_fin(r) for _ in range(k_)]])
        if u[6]:
            u[6].append(["inv", ""])
        return "involute-unreadable", x
    if k == 9:
        bad = D(r.choice([POS_INF, NEG_INF, 0x7FF8000000000000]))
        w = r.below(3)
        if w == 0:
            u = first_unit(x, r)
            u[2].append(["px", [bad]])
            if u[6]:
                u[6].append(["s", ""])
        elif w == 1:
            rc = g_rect(r, 2)
            rc[2][r.below(3)][-1] = D(POS_INF)
            x[0].append(rc)
        else:
            u = first_unit(x, r)
            u[5] = [[0, [0, [dv(1), bad, dv(0)]]]]
        return "nonfinite-double-unreadable", x
    if k == 10:
        rc = g_rect(r, 2)
        rc[3].append([0, [g_fin(r) for _ in range(12)]])
        x[0].append(rc)
        return "rect-transformation-unwritable", x
    if k == 11:
        u = first_unit(x, r)
        u[2] = [g_surface(r), g_surface(r)]
        u[6] = [g_label(r)]
        return "precondition:surface-labels-size", x
    if k == 12:
        x[1] = r.choice([[dv(0), dv(0)], [dv(1.0), dv(1e-5)], [dv(1e-5), dv(-1.0)],
                         [D(0x7FF8000000000000), dv(1)]])
        return "precondition:invalid-tolerance", x
    if k == 13:
        v = r.choice(first_unit(x, r, True)[3])
        v[6] = r.choice([0, 5, 77, 65534])
        return "precondition:invalid-zorder", x
    v = nonbg_volume(first_unit(x, r, True), r)
    v[2] = r.choice([[W], [0, W - 6, LAND], [W - 5, 1]])
    return "precondition:non-postfix-logic-token", x


# ---- the witnesses of the negative theorems in Props/C19.lean, replayed on the real code
def witnesses():
    d1, d2, dm1, z = dv(1.0), dv(2.0), dv(-1.0), D(0)
    tolw = [dv(1e-6), dv(1e-5)]

    def mk(vol=None, surfaces=None, bbox=None):
        v = vol or [["v", ""], [], [LTRUE], INFBOX, OBZ0, 0, 2]
        return [[["unit", ["u", ""], surfaces or [], [v], bbox or INFBOX, [], []]], tolw]

    def vol(**kw):
        v = {"label": ["v", ""], "faces": [], "logic": [LTRUE], "bbox": INFBOX, "obz": OBZ0,
             "flags": 0, "zorder": 2}
        v.update(kw)
        return [v["label"], v["faces"], v["logic"], v["bbox"], v["obz"], v["flags"], v["zorder"]]

    rect = lambda tr: [[["rect", ["arr", ""], [[z, d1], [z, d1], [z, d1]], [[0, tr]]]], tolw]
    return [
        ("obz-dropped", "obz_not_roundtrip", mk(vol(obz=[INFBOX, INFBOX, 0]))),
        ("bbox-dblmax-to-inf", "bbox_dblmax_not_roundtrip",
         mk(vol(bbox=[[z, z, z], [D(POS_MAX), d1, d1]]))),
        ("rect-zero-translation", "rect_zero_translation_not_roundtrip", rect([z, z, z])),
        ("rect-transformation-unwritable", "rect_transformation_not_writable",
         rect([z, d1, z, dm1, z, z, z, z, d1, z, z, z])),
        ("label-at-sign", "label_at_not_roundtrip", mk(vol(label=["a@b", ""]))),
        ("unit-null-bbox-to-infinite", "unit_null_bbox_not_roundtrip", mk(bbox=NULLBOX)),
        ("null-bbox-canonicalised", "null_bbox_canonicalised",
         mk(vol(bbox=[[d2, z, z], [d1, d1, d1]]))),
        ("background-volume-overwritten", "background_volume_overwritten", mk(vol(zorder=1))),
        ("empty-logic-unreadable", "empty_logic_not_readable", mk(vol(logic=[], flags=2))),
        ("involute-unreadable", "involute_not_readable",
         mk(surfaces=[["inv", [z, z, d1, z, z, d1]]])),
        ("nonfinite-double-unreadable", "nonfinite_text_not_readable",
         mk(surfaces=[["px", [D(POS_INF)]]])),
    ]


# ---- JSON-level mutations for `dec` (legacy keys, missing keys, wrong types/sizes)
def mutate_json(r, j):
    try:
        return mutate_json_(r, j)
    except (KeyError, TypeError, IndexError, AttributeError):
        return "noop"


def mutate_json_(r, j):
    """j: parsed CJ of a to_json output. Returns a short description; mutates in place."""
    us = j.get("universes", [])
    if not isinstance(us, list):
        us = []
    units = [u for u in us if isinstance(u, dict) and u.get("_type") == "unit"]
    rects = [u for u in us if isinstance(u, dict) and u.get("_type") == "rectarray"]
    k = r.below(24)

    def rename(o, a, b):
        if a in o:
            o[b] = o.pop(a)
            return True
        return False

    if k == 0 and units:
        u = r.choice(units)
        rename(u, "volumes", "cells"), rename(u, "volume_labels", "cell_names")
        rename(u, "surface_labels", "surface_names")
        u["_type"] = "simple unit"
        return "legacy-unit-keys"
    if k == 1 and units:
        u = r.choice(units)
        if rename(u, "parent_cells", "parent_volumes"):
            return "legacy-parent_volumes"
    if k == 2 and units:
        u = r.choice(units)
        if "transforms" in u and all(len(t) in (0, 3) for t in u["transforms"]):
            flat = []
            for t in u.pop("transforms"):
                flat += t if t else [D(0), D(0), D(0)]
            u["translations"] = flat
            if r.chance(1, 4) and flat:
                flat.pop()
            return "legacy-translations"
    if k == 3 and rects:
        rc = r.choice(rects)
        rc["_type"] = "rectangular array"
        n = len(rc["daughters"])
        perm = list(range(n))
        r.shuffle(perm)
        if r.chance(1, 4) and n:
            perm[r.below(n)] = r.choice([0, n - 1, n, n + 5])
        if r.chance(1, 6) and n:
            perm.pop()
        rc["parent_cells"] = perm
        return "rect-parent_cells"
    if k == 4 and rects:
        r.choice(rects)["transforms"] = []
        return "rect-transforms-key"
    if k == 5:
        j["_format"] = r.choice(["orange", "SCALE ORANGE", "Orange", "", 3, None])
        return "format"
    if k == 6:
        j["_units"] = r.choice(["cgs", "si", "clhep", "none", "bogus", 1, None])
        return "units"
    if k == 7:
        j["_version"] = r.choice([1, -3, True, "1", None, D(0x4000000000000000), []])
        return "version"
    if k == 8:
        j.pop(r.choice(sorted(j)), None)
        return "drop-top-key"
    if k == 9 and us:
        u = r.choice(us)
        u.pop(r.choice(sorted(u)), None)
        return "drop-universe-key"
    if k == 10 and units:
        vs = r.choice(units).get("volumes") or []
        if vs:
            v = r.choice(vs)
            v.pop(r.choice(sorted(v)), None)
            return "drop-volume-key"
    if k == 11 and units:
        vs = r.choice(units).get("volumes") or []
        if vs:
            r.choice(vs)["zorder"] = r.choice([1, 2, 3, 4, 0, 5, 65534, 65533, 65535, W, W - 1, "MM",
                                               "", "q", "!", "X", "x", "é", True, None,
                                               D(0x4008000000000000), -1, -2])
            return "zorder-legacy"
    if k == 12 and units:
        s = r.choice(units).get("surfaces")
        if isinstance(s, dict) and s.get("types"):
            w = r.below(4)
            if w == 0:
                s["types"][r.below(len(s["types"]))] = r.choice(["PX", "", "foo", "inv", 3])
            elif w == 1:
                s["sizes"][r.below(len(s["sizes"]))] = r.choice([0, 1, 2, 50, True, D(0x4000000000000000)])
            elif w == 2:
                s["data"] = s["data"][:r.below(len(s["data"]) + 1)]
            else:
                s["sizes"].pop()
            return "surfaces-zip"
    if k == 13 and units:
        u = r.choice(units)
        key_ = r.choice(["volume_labels", "surface_labels"])
        if isinstance(u.get(key_), list):
            if r.chance(1, 2) and u[key_]:
                u[key_].pop()
            else:
                u[key_].append(r.choice(["extra", "a@b@c", 5]))
            return "labels-size"
    if k == 14 and units:
        u = r.choice(units)
        if "daughters" in u:
            w = r.below(3)
            if w == 0:
                u["daughters"].append(1)
            elif w == 1 and u["transforms"]:
                u["transforms"].pop()
            else:
                u["transforms"].append(r.choice([[D(0)], [1, 2, 3], "t", [D(0)] * 12]))
            return "daughters-size"
    if k == 15:
        b = r.choice([None, [[1, 2, 3], [4, 5, 6]], [[D(NEG_MAX), 0, 0], [D(POS_MAX), True, 1]],
                      [[1, 2], [3, 4, 5]], [[1, 2, 3]], "box", {"a": 1, "b": 2}, [{"a": 1, "b": 2, "c": 3}, [1, 2, 3]],
                      [[D(POS_INF), D(0), D(0)], [D(NEG_INF), D(1), D(1)]]])
        tgt = r.choice(units) if units else j
        if units and r.chance(1, 2) and tgt.get("volumes"):
            r.choice(tgt["volumes"])["bbox"] = b
        else:
            tgt["bbox"] = b
        return "bbox-shapes"
    if k == 16:
        j["tol"] = r.choice([{"rel": D(0x3EB0C6F7A0B5ED8D), "abs": 1}, {"rel": 1, "abs": 1}, {"rel": 0, "abs": 1},
                             {"abs": D(0x3EB0C6F7A0B5ED8D)}, {"rel": D(0x3EB0C6F7A0B5ED8D)},
                             {"rel": D(0x3EB0C6F7A0B5ED8D), "abs": D(1 << 63)}, None, 5,
                             {"rel": True, "abs": 1}, {"rel": "x", "abs": 1},
                             {"rel": D(0x3EB0C6F7A0B5ED8D), "abs": D(POS_INF)}])
        return "tol-shapes"
    if k == 17 and us:
        r.choice(us)["_type"] = r.choice(["Unit", "hexarray", "", 4])
        return "universe-type"
    if k == 18 and units:
        vs = r.choice(units).get("volumes") or []
        if vs:
            v = r.choice(vs)
            v["logic"] = r.choice(["", " ", "1  2 &", "1x", "~~*|&", "00012 3", "18446744073709551616",
                                   "99999999999999999999999", "1 2 & (", "1\t2", 7, None, "*~"])
            return "logic-strings"
    if k == 19 and units:
        vs = r.choice(units).get("volumes") or []
        if vs:
            v = r.choice(vs)
            v[r.choice(["faces", "flags"])] = r.choice([[1, -1, D(0x4004000000000000)], True, -5, "f", [True],
                                                        D(0x4014000000000000), [D(0xBFE0000000000000)], None])
            return "faces-flags-types"
    if k == 20 and rects:
        rc = r.choice(rects)
        ax = r.choice(["x", "y", "z"])
        rc[ax] = r.choice([[D(0)], [], [1, 2], "g", [1, "a"], [True, False]])
        return "grid-shapes"
    if k == 21 and rects:
        rc = r.choice(rects)
        if r.chance(1, 2) and rc["translations"]:
            rc["translations"].pop()
        else:
            rc["daughters"].append(0)
        return "rect-sizes"
    if k == 22 and units:
        u = r.choice(units)
        u["md"] = r.choice([{}, {"name": 5}, "md", {"name": "a@b@c"}, None])
        return "md-shapes"
    j["universes"] = r.choice([[], None, {}, 5, [5]])
    return "universes-shapes"


# ------------------------------------------------------------------ running both sides
def run_both(exe, model, lines):
    """model first; lines the model calls `err ub` (undefined behaviour of the release build:
    out-of-bounds reads with CELER_ASSERT compiled out, visit_surface_type(inv)) are not sent
    to the real code."""
    _, om = vlib.run_lines([model], lines)
    keep = [i for i, o in enumerate(om) if o != "err ub"] if len(om) == len(lines) else \
        list(range(len(lines)))
    for attempt in range(4):
        _, oh_k = vlib.run_lines([exe], [lines[i] for i in keep])
        if len(oh_k) == len(keep) and not any("error while loading shared" in o for o in oh_k[:1]):
            break
        # the shared build tree may be re-linking a library for another check: wait for it
        vlib.time.sleep(5)
        with vlib.Lock("celer"):
            pass
    oh = ["err ub"] * len(lines)
    if len(oh_k) == len(keep):
        for i, o in zip(keep, oh_k):
            oh[i] = o
    else:
        oh = oh_k + ["<missing>"] * (len(lines) - len(oh_k))
    return oh, om, len(lines) - len(keep)


# loss classes that no construction-API program and no bundled file produces (each is an explicit
# conjunct of `Valid`, with a Lean witness of the negation): counted, not violations
OUTSIDE = {"bbox-dblmax-to-inf", "rect-zero-translation", "unit-null-bbox-to-infinite",
           "background-volume-overwritten", "empty-logic-unreadable",
           "nonfinite-double-unreadable", "rect-transformation-unwritable"}
PROTO_SCENARIOS = ["spheres", "bgspheres", "boxes-cyls", "daughters", "labels-at", "empty-region"]
LOG_OFF = {"CELER_LOG": "critical", "CELER_LOG_LOCAL": "critical"}


def all_diffs(a, b, path="x", out=None):
    out = [] if out is None else out
    if type(a) is not type(b):
        out.append(path)
    elif isinstance(a, list):
        if len(a) != len(b):
            out.append(path + ".len")
        else:
            for i, (x, y) in enumerate(zip(a, b)):
                all_diffs(x, y, f"{path}[{i}]", out)
    elif a != b:
        out.append(path)
    return out


def diff_classes(a, b):
    """classify every difference between two Input S values by the field it is in"""
    import re
    ks = {}
    for pth in all_diffs(a, b):
        if re.match(r"x\[0\]\[\d+\]\[3\]\[\d+\]\[4\]", pth):
            k = "obz-dropped"
        elif re.match(r"x\[0\]\[\d+\](\[1\]|\[3\]\[\d+\]\[0\]|\[6\]\[\d+\])\[[01]\]$", pth):
            k = "label-at-sign"
        elif re.match(r"x\[0\]\[\d+\]\[3\]\[\d+\]\[3\]", pth):
            k = "null-bbox-canonicalised"
        else:
            k = "other:" + pth
        ks.setdefault(k, pth)
    return ks


def classify_loss(key, inp, out):
    """does the observed loss (`out` = real rt answer) match what class `key` predicts?"""
    if key in ("involute-unreadable",):
        return out in ("err unreachable", "err ub")
    if key in ("empty-logic-unreadable", "nonfinite-double-unreadable"):
        return out == "err json"
    if key in ("rect-transformation-unwritable", "precondition:surface-labels-size",
               "precondition:non-postfix-logic-token"):
        return out == "err validate"
    return out.startswith("ok ") and out[3:] != inp


def run(ctx):
    quick = ctx.quick()
    load_tables()
    ps = common.proof_side(ctx, "C19")
    broken = list(ps["broken"])
    ctx.assumptions += [
        "model of every to_json/from_json is hand-written (Model/OrangeIO.lean) and compared with "
        "the real code on every run; JSON key inventories, surface type names/sizes/readability, "
        "logic tokens, ZOrder tables and format strings are regenerated from the source",
        "doubles are opaque bit patterns; nlohmann's dump()/parse() is assumed to return every "
        "finite double exactly and to write non-finite ones as null (observed on every sample)",
        "size_type = std::size_t (64 bit): the build has no CUDA/HIP",
        "Valid x (Props/C19.lean) spells out what the round trip needs; documented preconditions "
        "(CELER_EXPECT(value) in to_json) are compiled out in this build and are not assumed "
        "except where they coincide with Valid",
        "navigation identity is checked on the real code only (nav op) and only for inputs that "
        "OrangeParams accepts (bundled files, construction-API scenarios built in the harness)",
        "loss classes that neither a construction-API program nor a bundled file produces are "
        "outside the statement (conjuncts of Valid), counted under op_mix outside-statement:*",
    ]
    exe, log, _ = vlib.build_harness("orangeio", HARNESS["orangeio"])
    if exe is None:
        ctx.violation("harness-build", "harness/orangeio.cc no longer builds against /repo",
                      {"correspondence": "harness build", "log": log[-2000:]}, found_input=False)
        ctx.coverage.update({"evaluations": 0, "distinct_nontrivial": 0})
        return LEVEL
    model = vlib.model_exe("C19")
    if not ps["model_ok"]:
        broken.append("model driver did not build")
        ctx.violation("unproved", "; ".join(broken)[:600], {"no_longer_checks": broken},
                      found_input=False)
        ctx.coverage.update({"evaluations": 0, "distinct_nontrivial": 0})
        return LEVEL
    r = ctx.rng
    evals, tags, distinct, diverged, n_ub = 0, {}, set(), [], 0
    losses, loss_seen = [], {}

    def tag(t, n=1):
        tags[t] = tags.get(t, 0) + n

    def compare(lines, what):
        nonlocal evals, n_ub
        oh, om, nub = run_both(exe, model, lines)
        n_ub += nub
        evals += len(lines)
        for l, a, b in zip(lines, oh, om):
            if a == "err unreachable":
                # the harness refuses to call the real reader on JSON containing an "inv" surface
                # (it would run into __builtin_unreachable): nothing to compare
                n_ub += 1
                continue
            if a != b:
                diverged.append({"what": what, "op": l[:4000], "impl": a[:2000], "model": b[:2000]})
            if not a.startswith("bad-op"):
                distinct.add(l)
        if len(oh) != len(lines) or len(om) != len(lines):
            diverged.append({"what": what + ": stream length", "impl": len(oh), "model": len(om)})
        return oh, om

    def oracle_rt(inputs, outs, expect_key=None, label=""):
        """impl-side oracle: the struct after write+read must equal the struct before"""
        for s, o in zip(inputs, outs):
            if o == "ok " + s:
                continue
            if o == "err ub":
                continue
            p = None
            if o.startswith("ok "):
                try:
                    p = first_path(parse_cj(s), parse_cj(o[3:]))
                except Exception as e:  # noqa
                    p = "unparsable: %r" % e
            k = expect_key or "roundtrip-valid-input"
            if expect_key and not classify_loss(expect_key, s, o):
                k = "roundtrip-unexpected:" + expect_key
            if k.startswith("precondition:") or k in OUTSIDE:
                tag("outside-statement:" + k)
                continue
            loss_seen[k] = loss_seen.get(k, 0) + 1
            if loss_seen[k] <= 1:
                losses.append((k, s, o, p, label))

    # ---- 0. corpus
    cdir = os.path.join(vlib.CORPUS, "C19")
    corpus = []
    if os.path.isdir(cdir):
        for fn in sorted(os.listdir(cdir)):
            corpus += [l.rstrip("\n") for l in open(os.path.join(cdir, fn))
                       if l.strip() and not l.startswith("//")]
    if corpus:
        compare(corpus, "corpus")
        tag("corpus", len(corpus))

    # ---- 0a. inputs built by the CONSTRUCTION API (orangeinp UnitProto + InputBuilder, in the
    #          harness): enc/enct/rt/rtm on both sides, field-by-field oracle, tracking oracle
    _, protos = vlib.run_lines([exe], ["proto " + cj(n) for n in PROTO_SCENARIOS], env=LOG_OFF)
    proto_S, proto_res = [], {}
    if len(protos) != len(PROTO_SCENARIOS) or not all(o.startswith("ok ") for o in protos):
        broken.append("harness `proto` (construction API) failed: " + "; ".join(protos)[:300])
    else:
        proto_S = [(n, o[3:]) for n, o in zip(PROTO_SCENARIOS, protos)]
        for op in ("enc", "enct", "rt", "rtm"):
            outs, _ = compare([op + " " + s_ for _, s_ in proto_S], "construction-api " + op)
            tag("construction-api-" + op, len(proto_S))
            if op != "rt":
                continue
            for (n, s_), o in zip(proto_S, outs):
                if not o.startswith("ok "):
                    ctx.violation("roundtrip-construction-api:" + n, "an input built by the "
                                  f"construction API (scenario {n}) cannot be read back: {o}",
                                  {"ops": ["proto " + cj(n), "rt " + s_], "actual": o})
                    continue
                ks = diff_classes(parse_cj(s_), parse_cj(o[3:]))
                proto_res[n] = sorted(ks)
                for k, pth in ks.items():
                    if k.startswith("other:"):
                        ctx.violation("roundtrip-construction-api:" + n, "an input built by the "
                                      f"construction API (scenario {n}) changes at {pth}",
                                      {"ops": ["proto " + cj(n), "rt " + s_], "expected": "ok " + s_,
                                       "actual": o, "first_difference": pth})
                    else:
                        loss_seen[k] = loss_seen.get(k, 0) + 1
                        if loss_seen[k] <= 1:
                            losses.append((k, s_, o, pth, f'construction API: proto "{n}"'))
        _, navs = vlib.run_lines([exe], ["nav " + s_ for _, s_ in proto_S], env=LOG_OFF)
        evals += len(navs)
        for (n, s_), o in zip(proto_S, navs):
            proto_res[n + " (tracking, 128 rays)"] = o
            if not o.startswith("ok same"):
                ctx.violation("navigation-differs:proto-" + n, "tracking differs after the JSON "
                              f"round trip of the construction-API input {n}: {o}",
                              {"ops": ["proto " + cj(n), "nav " + s_]})

    # ---- 0b. the concrete witnesses of the negative theorems, on the real code
    wit = witnesses()
    for op in ("enc", "rt", "rtm"):
        outs, _ = compare([op + " " + cj(x) for _, _, x in wit], "witness " + op)
        tag("witness-" + op, len(wit))
        if op == "rt":
            for (k, thm, x), o in zip(wit, outs):
                if classify_loss(k, cj(x), o):
                    oracle_rt([cj(x)], [o], expect_key=k, label="theorem " + thm)
                else:
                    ctx.violation("witness-not-reproduced:" + k,
                                  f"the real code does not show the loss proved in theorem {thm}",
                                  {"ops": ["rt " + cj(x)], "actual": o[:2000]})

    # ---- 1. bundled inputs: real parse -> dec (both) -> enc/enct/rt/rtm (both) -> oracle, nav
    files = sorted(f for f in os.listdir(DATA) if f.endswith(".org.json"))
    _, loaded = vlib.run_lines([exe], ["load " + os.path.join(DATA, f) for f in files])
    bundled_S, nav_res = [], dict(proto_res)
    if len(loaded) != len(files) or not all(l.startswith("ok ") for l in loaded):
        broken.append("harness `load` failed on a bundled input")
    else:
        js = [l[3:] for l in loaded]
        oh, om = compare(["dec " + j for j in js], "bundled dec")
        tag("bundled-dec", len(js))
        for f, j, a in zip(files, js, oh):
            if a.startswith("ok "):
                bundled_S.append((f, a[3:]))
            elif a in ("err unreachable", "err ub"):
                # a bundled input the real reader cannot load; show what the release build does
                try:
                    rc, out = vlib.sh([exe], input="dec " + j + "\n", timeout=60,
                                      env={"C19_CALL_UNREACHABLE": "1"})
                    unsafe = f"exit code {rc} (-11 = SIGSEGV), output {out[:80]!r}"
                except Exception as e:  # noqa
                    unsafe = repr(e)
                ctx.violation("involute-unreadable",
                              f"bundled {f}: from_json reaches visit_surface_type(SurfaceType::inv), "
                              "which has no case (CELER_ASSERT_UNREACHABLE = __builtin_unreachable "
                              "in the release build; the harness does not call it): involute "
                              "surfaces are written by to_json but cannot be read back",
                              {"ops": ["load " + os.path.join(DATA, f), "dec <that JSON>"],
                               "model": om[files.index(f)], "theorem": "involute_not_readable",
                               "real_code_when_called_anyway (C19_CALL_UNREACHABLE=1)": unsafe})
            else:
                ctx.violation("bundled-unreadable:" + f, f"bundled {f} is rejected by from_json: {a}",
                              {"ops": ["dec " + j[:3000]]})
        for op in ("enc", "enct", "rt", "rtm"):
            outs, _ = compare([op + " " + s for _, s in bundled_S], "bundled " + op)
            tag("bundled-" + op, len(bundled_S))
            if op in ("rt", "rtm"):
                oracle_rt([s for _, s in bundled_S], outs, label="bundled/" + op)
        _, navs = vlib.run_lines([exe], ["nav " + s for _, s in bundled_S],
                                 env=LOG_OFF)
        evals += len(navs)
        for (f, s), o in zip(bundled_S, navs):
            nav_res[f] = o
            if o.startswith("ok diff"):
                ctx.violation("navigation-differs:" + f, f"tracking differs after JSON round trip of {f}: {o}",
                              {"ops": ["nav " + s[:3000]]})

        # navigation when the struct DOES change: NoTransformation -> Translation(0,0,0) in the
        # rect arrays of the bundled inputs (comes back as NoTransformation; tracking must agree)
        zt = []
        for f, s_ in bundled_S:
            x = parse_cj(s_)
            n = 0
            for u in x[0]:
                if u[0] == "rect":
                    for d_ in u[3]:
                        if d_[1] == []:
                            d_[1] = [D(0), D(0), D(0)]
                            n += 1
            if n:
                zt.append((f, cj(x)))
        if zt:
            outs, _ = compare(["rt " + s_ for _, s_ in zt], "bundled zero-translation rt")
            for (f, s_), o in zip(zt, outs):
                oracle_rt([s_], [o], expect_key="rect-zero-translation", label="bundled " + f)
            _, navs = vlib.run_lines([exe], ["nav " + s_ for _, s_ in zt],
                                     env=LOG_OFF)
            evals += len(navs)
            for (f, s_), o in zip(zt, navs):
                nav_res[f + " (zero translations)"] = o
                if not o.startswith("ok same"):
                    ctx.violation("navigation-differs:" + f, "tracking differs after JSON round "
                                  f"trip of {f} with zero translations in its rect arrays: {o}",
                                  {"ops": ["nav " + s_[:3000]]})

    # ---- 2. random inputs inside Valid: enc, enct, rt, rtm on both sides; oracle on real rt
    n_valid = 300 if quick else 10000
    valid = [cj(g_input(r)) for _ in range(n_valid)]
    enc_outs = None
    for op in ("enc", "enct", "rt", "rtm"):
        outs, _ = compare([op + " " + s for s in valid], "valid " + op)
        tag("valid-" + op, len(valid))
        if op == "enc":
            enc_outs = outs
        if op in ("rt", "rtm"):
            oracle_rt(valid, outs, label="valid/" + op)

    # ---- 3. single-feature departures from Valid: same ops; the loss must be the predicted one
    n_dep = 300 if quick else 10000
    deps = []
    for _ in range(n_dep):
        k, x = depart(r, g_input(r))
        deps.append((k, cj(x)))
    for op in ("enc", "enct", "rt", "rtm"):
        outs, _ = compare([op + " " + s for _, s in deps], "departure " + op)
        tag("departure-" + op, len(deps))
        if op == "rt":
            for (k, s), o in zip(deps, outs):
                tag("class:" + k)
                oracle_rt([s], [o], expect_key=k, label="departure/rt")

    # ---- 4. dec on mutated JSON (legacy keys, missing keys, wrong shapes)
    n_mut = 800 if quick else 25000
    base = [parse_cj(o[3:]) for o in (enc_outs or []) if o.startswith("ok ")]
    muts = []
    for i in range(n_mut if base else 0):
        j = parse_cj(cj(r.choice(base)))          # deep copy
        for _ in range(r.range(1, 2)):
            tag("mut:" + mutate_json(r, j))
        muts.append("dec " + cj(j))
    if muts:
        compare(muts, "mutated dec")

    # ---- 5. component ops
    comp = []
    for _ in range(100 if quick else 6000):
        comp.append("s2lab " + cj("".join(r.choice("ab@@ .") for _ in range(r.below(8)))))
        comp.append("lab2s " + cj([g_word(r, True), g_word(r, True)]))
        comp.append("logdec " + cj("".join(r.choice("0123456789  ~&|*") for _ in range(r.below(24)))))
        comp.append("logenc " + cj(g_logic(r, 9) + ([r.choice([W, W - 5, W - 6, W - 7])] if r.chance(1, 4) else [])))
        b = [[D(r.choice([POS_INF, NEG_INF, POS_MAX, NEG_MAX, 0, 1 << 63, 0x7FF8000000000000, g_fin(r).b]))
              for _ in range(3)] for _ in range(2)]
        comp.append("bbenc " + cj(b))
        comp.append("bbdec " + cj(b))
        comp.append("trdec " + cj([r.choice([g_fin(r), r.below(9), -3]) for _ in range(r.choice([0, 1, 3, 3, 11, 12, 12, 13]))]))
        comp.append("tolenc " + cj([D(r.next()), D(r.next())]))
        comp.append("toldec " + cj({"rel": r.choice([g_fin(r), D(r.next()), 0, 1]), "abs": r.choice([g_fin(r), D(r.next()), 2])}))
        comp.append("volenc " + cj(g_volume(r, 5)))
        comp.append("surfenc " + cj([g_surface(r) for _ in range(r.below(4))]))
        comp.append("unitenc " + cj(g_unit(r, 3)))
        comp.append("rectenc " + cj(g_rect(r, 3)))
    comp += ["frobnicate 1", "enc", "enc [", "dec {\"a\":}", "rt [[],[1,2]]", ""]
    compare(comp, "component ops")
    for l in comp:
        tag("op:" + (l.split(" ")[0] or "empty"))

    # ---- verdicts
    if diverged:
        broken.append(f"correspondence: model and implementation differ on {len(diverged)} ops "
                      f"(first: {diverged[0]['what']})")
    texts = {
        "obz-dropped": "VolumeInput.obz (oriented bounding zone, set by UnitProto::build and consumed "
                       "by UnitInserter) is never written by to_json(VolumeInput): it comes back "
                       "default-constructed",
        "bbox-dblmax-to-inf": "a bounding-box coordinate equal to +-DBL_MAX is read back as +-inf",
        "rect-zero-translation": "a Translation comparing equal to (0,0,0) in a RectArrayInput daughter "
                                 "is read back as NoTransformation",
        "label-at-sign": "a Label whose ext contains '@', or whose name contains '@' while ext is "
                         "empty, is split differently by from_separator (rfind); reachable from "
                         "the construction API with user-chosen names (UnitProto::Input::label, "
                         "MaterialInput::label): harness op `proto \"labels-at\"`",
        "unit-null-bbox-to-infinite": "a UnitInput whose bbox is null is written without \"bbox\" and "
                                      "read back with the infinite box",
        "null-bbox-canonicalised": "a non-canonical null volume bbox (lower > upper) is written as "
                                   "null and read back as the canonical null box; UnitProto emits "
                                   "one for an empty region (intersection of disjoint boxes): "
                                   "harness op `proto \"empty-region\"`",
        "background-volume-overwritten": "a ZOrder::background volume whose logic/bbox are not "
                                         "{ltrue,lnot}/null is overwritten with those on read",
        "empty-logic-unreadable": "a volume with empty logic and the implicit_vol flag (valid per "
                                  "VolumeInput::operator bool) is written without \"logic\", and "
                                  "from_json then throws (key 'logic' not found)",
        "involute-unreadable": "Involute surfaces are written, but reading them reaches "
                               "visit_surface_type(SurfaceType::inv) = assert-unreachable",
        "nonfinite-double-unreadable": "a non-finite double outside a bounding box (surface data, "
                                       "grid, transform) is dumped as null and cannot be read back",
    }
    for k, s, o, p, label in losses:
        known_class = k in texts
        ctx.violation(k, (texts.get(k) or f"round trip changed a Valid input ({label})")
                      + f" [first difference at {p}; {loss_seen[k]} inputs]",
                      {"harness": "harness/orangeio.cc",
                       "ops": ([label.split(": ", 1)[1]] if label.startswith("construction API: ")
                               else []) + ["rt " + s],
                       "expected": "ok " + s, "actual": o, "first_difference": p,
                       "contradicts": "decode_encode" if not known_class else "outside Valid: see "
                       "the *_not_roundtrip theorems in Props/C19.lean"})
    if broken and not ctx.violations:
        # search harder with the impl-side oracle before giving up
        extra = [cj(g_input(r)) for _ in range(600)]
        _, outs = vlib.run_lines([exe], ["rt " + s for s in extra])
        bad = [(s, o) for s, o in zip(extra, outs) if o != "ok " + s]
        if bad:
            s, o = bad[0]
            ctx.violation("roundtrip-valid-input", "real write->read changed an input inside Valid",
                          {"ops": ["rt " + s[:6000]], "actual": o[:6000], "no_longer_checks": broken})
        else:
            ctx.violation("unproved", "; ".join(broken)[:600],
                          {"no_longer_checks": broken, "diverging_ops": diverged[:3]},
                          found_input=False)
    if not quick and ps["build"]["ok"]:
        common.leanchecker(ctx, ["CelerVerif.Props.C19"])

    ctx.coverage.update({
        "evaluations": evals, "distinct_nontrivial": len(distinct),
        "rule": "op lines answered by the real code with something other than bad-op; distinct = "
                "distinct op lines (random structured OrangeInputs: 0-4 universes, units with 0-6 "
                "surfaces of all 17 readable types, 0-5 volumes, daughters with all 3 transform "
                "kinds, rect arrays, labels with/without ext, random valid tolerances; 15 classes "
                "of single-feature departures from Valid; 24 kinds of JSON mutation; component ops)",
        "op_mix": dict(sorted(tags.items())), "bundled_files": len(files),
        "bundled_decodable": len(bundled_S), "navigation": nav_res,
        "model_says_ub_not_sent_to_real_code": n_ub,
        "loss_classes_seen": dict(sorted(loss_seen.items())),
        "diverging_ops": diverged[:5], "n_diverging": len(diverged),
        "samples": [valid[0][:400] if valid else "", deps[0][1][:300] if deps else "",
                    muts[0][:300] if muts else ""],
        "correspondence_broken": broken,
    })
    return LEVEL


def replay(ctx, data):
    exe, log, _ = vlib.build_harness("orangeio", HARNESS["orangeio"])
    rp = data["replay"]
    ops = rp.get("ops") or []
    rc = 0
    for op in ops:
        if op.startswith("dec <"):
            continue
        if op.startswith("proto "):
            _, o = vlib.run_lines([exe], [op], env=LOG_OFF)
            same = bool(o) and o[0] == rp.get("expected")
            print(op, "-> the construction API builds", "the replayed input" if same else
                  "a DIFFERENT input than recorded")
            continue
        _, o = vlib.run_lines([exe], [op])
        print(op[:300])
        print(" ->", (o[0] if o else "<no output>")[:600])
        if "expected" in rp:
            same = o and o[0] == rp["expected"]
            print("round trip is the identity" if same else "ROUND TRIP CHANGED THE INPUT (reproduced)")
            rc = 0 if same else 1
        elif op.startswith("load "):
            _, o2 = vlib.run_lines([exe], ["dec " + o[0][3:]]) if o and o[0].startswith("ok ") else (0, o)
            print(" dec ->", (o2[0] if o2 else "")[:300])
            rc = 0 if o2 and o2[0].startswith("ok ") else 1
    if not ops:
        print(vlib.json.dumps(rp, indent=1)[:4000])
    return rc
