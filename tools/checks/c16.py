"""C16 — running out of secondary or initializer storage never corrupts or loses physics."""
import os

import vlib
from checks import common

LEVEL = "proof"
HARNESS = {"stack": ["corecel"],
           "trackinit": ["corecel", "geocel", "orange", "celeritas", "testcel_harness",
                         "testcel_core", "testcel_geocel", "testcel_orange",
                         "testcel_celeritas"]}
MANIFEST = {
    "category": "proof",
    "technique": "Lean 4 proof over a hand-written model of StackAllocator (sequential + "
                 "interleaved fetch-add/check/restore), InteractionApplier's failure path and the "
                 "capacity checks of the track-initialisation actions; differential "
                 "correspondence of the model against the real StackAllocator (H1) and the real "
                 "actions/applier on a CoreState (H3)",
    "text": "Theorems: a request that does not fit returns null with the size restored; "
            "successful ranges are disjoint and within capacity for every request sequence and, "
            "for every schedule of any number of threads over the atomic steps fetch-add / check "
            "/ restoring store, after every prefix of the schedule (interleaved_allocs_disjoint, "
            "no 32-bit wrap assumed), with size = initial + granted <= capacity at quiescence; a failed "
            "interaction leaves energy, direction, status, deposition, secondaries and the stack "
            "untouched; initializer/primary capacity is validated before any initializer is "
            "written and reset re-establishes the C02 invariant; a failed interaction is handed to "
            "the action registered as physics-failure (registration order and failure_action() "
            "expression regenerated from source), never to a model; the Stepper refuses event ids "
            ">= max_events before track_counters is indexed (strict comparison regenerated from "
            "Stepper.cc).  Correspondence: random op "
            "scripts on the real allocator for capacities 0..; starved secondary stacks and "
            "tight initializer capacities on a real CoreState.",
    "design_ref": "DESIGN.md §6 C16",
    "note": "Reading of 'interacts again at the interaction point' (DESIGN §8 row j): the track "
            "stays alive at the same point with the same energy and is handed to the failure "
            "action with a zero step limit; the MFP was already reset by discrete selection so the "
            "next interaction is re-sampled (memoryless). Exact energy balance of whole events "
            "is C01's ledger. Hypothesis of the interleaving theorem: size0 + sum of all requests "
            "< 2^32.",
}


# ------------------------------------------------------------------ allocator scripts
def gen_stack_script(rng, n_ops):
    cap = rng.choice([0, 0, 1, 1, 2, 3, rng.range(4, 16), rng.range(17, 200)])
    lines = ["new %x" % cap]
    for _ in range(n_ops):
        k = rng.below(20)
        if k < 9:
            c = rng.below(6)
            if c == 0:
                n = 1
            elif c == 1:
                n = max(1, cap)                     # exactly the capacity
            elif c == 2:
                n = cap + 1                         # one too many
            elif c == 3:
                n = rng.range(1, max(1, cap // 2))
            elif c == 4:
                n = rng.range(1, 2 * cap + 2)
            else:
                n = rng.choice([0, 0xFFFFFFFF, 0xFFFFFFFF - cap, 1 << 31, rng.next() & 0xFFFFFFFF])
            lines.append("alloc %x" % n)
        elif k < 12:
            lines.append("write %x %x" % (rng.below(cap + 2), rng.below(0x10000)))
        elif k < 15:
            lines.append("get")
        elif k < 16:
            lines.append("size")
        elif k < 17:
            lines.append("clear")
        elif k < 18:
            # raw overflowed size (states visited by concurrent failing threads)
            lines.append("setsize %x" % rng.choice([cap, cap + 1, cap + rng.below(50),
                                                    0xFFFFFFFF, 0xFFFFFFFE, rng.below(cap + 1)]))
        elif k < 19:
            lines.append("new %x" % rng.choice([0, 1, cap, rng.range(1, 64)]))
            cap = int(lines[-1].split()[1], 16)
        else:
            lines.append(rng.choice(["alloc", "alloc zz", "frob", "", "alloc 0", "write 1"]))
    return lines


def stack_oracle(lines, out):
    """impl-side predicate on the real allocator's answers: failures leave the size unchanged
    (when size <= cap), successful ranges are in capacity, do not overlap until `clear`, and
    earlier data survive.  Returns list of (index, message)."""
    bad = []
    cap, size, live, mem = 0, 0, [], {}
    for i, (l, o) in enumerate(zip(lines, out)):
        w, r = l.split(), o.split()
        if not r or r[0] == "bad-op":
            continue
        if w[0] == "new":
            cap, size, live, mem = int(w[1], 16), 0, [], {}
        elif w[0] == "alloc":
            n = int(w[1], 16)
            if r[0] == "null":
                ns = int(r[2])
                if size <= cap:
                    if size + n <= cap:
                        bad.append((i, "allocation that fits was refused"))
                    if ns != size:
                        bad.append((i, f"failed allocation changed the size {size} -> {ns}"))
                size = ns
            else:
                a, ns = int(r[1]), int(r[3])
                if a + n > cap:
                    bad.append((i, f"range [{a},{a + n}) exceeds capacity {cap}"))
                if a != size or ns != size + n:
                    bad.append((i, f"start/size {a}/{ns} but size was {size}, n={n}"))
                for (b, m) in live:
                    if a < b + m and b < a + n:
                        bad.append((i, f"range [{a},{a + n}) overlaps live [{b},{b + m})"))
                live.append((a, n))
                for j in range(a, a + n):
                    mem[j] = 0xdead
                size = ns
        elif w[0] == "write":
            mem[int(w[1], 16)] = int(w[2], 16)
        elif w[0] == "clear":
            size, live = 0, []
        elif w[0] == "setsize":
            size = int(w[1], 16)
            live = [(0, min(size, cap))] if size else []
        elif w[0] == "get" and r[1] != "overflow":
            vals = [int(x, 16) for x in r[3:]]
            if len(vals) != size:
                bad.append((i, f"get returns {len(vals)} elements, size {size}"))
            for j, v in enumerate(vals):
                if j in mem and mem[j] != v:
                    bad.append((i, f"element {j} changed from {mem[j]:#x} to {v:#x}"))
    return bad


def run_stack(ctx, broken, ps):
    quick = ctx.quick()
    exe, log, _ = vlib.build_harness("stack", HARNESS["stack"])
    if exe is None:
        ctx.violation("harness-build-stack", "harness/stack.cc no longer builds against /repo",
                      {"correspondence": "harness build", "log": log[-2000:]}, found_input=False)
        return {}
    n_scripts, n_ops = (300, 40) if quick else (4000, 60)
    scripts = []
    cdir = os.path.join(vlib.CORPUS, "C16")
    if os.path.isdir(cdir):
        for fn in sorted(os.listdir(cdir)):
            if fn.startswith("stack"):
                scripts.append([l.strip() for l in open(os.path.join(cdir, fn))
                                if l.strip() and not l.startswith("#")])
    n_corpus = len(scripts)
    for _ in range(n_scripts):
        scripts.append(gen_stack_script(ctx.rng, n_ops))
    # exhaustive small part: every capacity 0..6, every request sequence of length 3 over 1..cap+1
    for cap in range(0, 7 if quick else 10):
        reqs = list(range(1, cap + 2))
        s = []
        for a in reqs:
            for b in reqs:
                for c in reqs[:4]:
                    s += ["new %x" % cap, "alloc %x" % a, "alloc %x" % b, "get", "alloc %x" % c,
                          "size"]
        scripts.append(s)
    flat, bounds = [], []
    for s in scripts:
        bounds.append((len(flat), len(flat) + len(s)))
        flat += s
    _, oh = vlib.run_lines([exe], flat)
    diverged, tags, distinct = [], {}, set()
    if ps["model_ok"]:
        _, om = vlib.run_lines([vlib.model_exe("C16")], flat)
        for (a, b), s in zip(bounds, scripts):
            d = vlib.first_diff(oh[a:b], om[a:b])
            if d is not None:
                diverged.append({"script": s[:d[0] + 1], "impl": d[1], "model": d[2]})
    else:
        broken.append("model driver did not build")
    for l, o in zip(flat, oh):
        t = (l.split() or ["empty"])[0] + ":" + (o.split() or ["?"])[0]
        tags[t] = tags.get(t, 0) + 1
    n_fail = 0
    for (a, b), s in zip(bounds, scripts):
        if any(o.startswith("null") for o in oh[a:b]):
            distinct.add(" ".join(s))
        bad = stack_oracle(s, oh[a:b])
        if bad:
            n_fail += 1
            i, msg = bad[0]
            ctx.violation("stack-oracle", "real StackAllocator: " + msg,
                          {"harness": "harness/stack.cc", "ops": s[:i + 1], "impl": oh[a:b][:i + 1],
                           "contradicts": "alloc_fail_restores / runAllocs_spec"})
            if n_fail > 3:
                break
    if diverged:
        broken.append(f"correspondence(stack): model and implementation differ on "
                      f"{len(diverged)} scripts")
    return {"stack_ops": len(flat), "stack_scripts": len(scripts), "stack_corpus": n_corpus,
            "stack_diverging": diverged[:3], "stack_op_mix": dict(sorted(tags.items())),
            "stack_distinct": len(distinct), "stack_sample": scripts[n_corpus][:8]}


LIVELOCK_KEY = "secondary-stack-smaller-than-one-interaction-livelock"


def livelock_script(n_steps=40):
    lines = ["config 4 64 1 0 1", "insert 0:1:5"]
    for _ in range(n_steps):
        lines += ["efp", "init", "pre", "interact kgg kgg kgg kgg", "cut", "efs"]
    return lines


def livelock_observed(script, out):
    """True iff on the given outputs every interaction of the run failed and the track is still
    alive with an empty queue at the end (the loop made no progress)."""
    inter = [o for l, o in zip(script, out) if l.startswith("interact")]
    ends = [o for l, o in zip(script, out) if l == "efs"]
    if not inter or not ends or not all(o.startswith("efs ok") for o in ends):
        return False
    from checks import c02
    d = c02.parse(ends[-1])
    alive = [x for x in d["slots"] if x]
    return (all(o.startswith("interact F:3 ") for o in inter) and len(alive) == 1
            and alive[0]["st"] == "a" and alive[0]["steps"] == len(inter)
            and d["c"]["init"] == 0 and d["c"]["alive"] == 1)


def run_livelock(ctx, ps):
    """the finding `starved_stack_livelock` replayed on the real code"""
    exe, log, _ = vlib.build_harness("trackinit", HARNESS["trackinit"])
    if exe is None:
        return {}
    script = livelock_script()
    _, oh = vlib.run_lines([exe], script)
    seen = livelock_observed(script, oh)
    model_same = None
    if ps["model_ok"] and os.path.exists(vlib.model_exe("C02")):
        _, om = vlib.run_lines([vlib.model_exe("C02")], script)
        model_same = (om == oh)
    if seen:
        ctx.violation(LIVELOCK_KEY,
                      "secondary stack capacity 1 (4 slots, stack factor ~0.25) smaller than the 2 "
                      "secondaries one interaction requests: the real InteractionApplier/"
                      "StackAllocator fail the interaction at every one of 40 steps, the track "
                      "stays alive, queued = 0, alive = 1 for ever — the event never completes "
                      "(Lean: starved_stack_livelock)",
                      {"harness": "harness/trackinit.cc", "ops": script[:8] + ["... x40"],
                       "script": "corpus/C16/livelock_secondary_stack_smaller_than_one_interaction.ops",
                       "last": oh[-1][:200], "contradicts": "C16 'the event still completes'; "
                       "proved: Props/C16.lean starved_stack_livelock / starved_step_is_fixed_point",
                       "livelock": True})
    return {"livelock_reproduced": seen, "livelock_model_agrees": model_same}


def event_id_scenarios(rng, n):
    """`stepper <maxEvents> <slots> <ev>...` lines around the max_events boundary"""
    out = []
    for max_ev in (1, 2, 3, 8, 64):
        for ev in (max_ev - 1, max_ev, max_ev + 1, 4000000000, 4294967294):
            out.append("stepper %d %d %d" % (max_ev, rng.choice([1, 2, 4]), ev))
        out.append("stepper %d 2 0 %d" % (max_ev, max_ev))          # bad id last
        out.append("stepper %d 2 %d 0" % (max_ev, max_ev))          # bad id first
        out.append("stepper %d 3 %d 0 %d" % (max_ev, max_ev - 1, max_ev - 1))
    for _ in range(n):
        max_ev = rng.range(1, 64)
        k = rng.range(1, 6)
        evs = [rng.below(max_ev) for _ in range(k)]
        if rng.chance(1, 2):
            evs[rng.below(k)] = rng.choice([max_ev, max_ev, max_ev + 1, max_ev + rng.below(100),
                                            2 * max_ev, 4000000000])
        out.append("stepper %d %d " % (max_ev, rng.range(1, 8)) + " ".join(map(str, evs)))
    return out


def run_event_ids(ctx, broken, ps):
    """the real Stepper::operator()(primaries): primaries with an event id >= max_events must
    be refused with the documented error before make_track_id indexes track_counters; below
    max_events they must be accepted.  Every scenario runs in its own process (an accepted
    out-of-range id overruns the heap)."""
    exe, log, _ = vlib.build_harness("trackinit", HARNESS["trackinit"])
    if exe is None:
        return {}
    lines = event_id_scenarios(ctx.rng, 30 if ctx.quick() else 400)
    n_bad = 0
    om = None
    if ps["model_ok"] and os.path.exists(vlib.model_exe("C02")):
        _, om = vlib.run_lines([vlib.model_exe("C02")], lines)
    tags = {}
    for k, l in enumerate(lines):
        w = l.split()
        max_ev, evs = int(w[1]), [int(x) for x in w[3:]]
        rc, oh = vlib.run_lines([exe], [l])
        got = oh[0] if oh else "<no output, rc=%d>" % rc
        tags[got.split(" generated")[0]] = tags.get(got.split(" generated")[0], 0) + 1
        must_fail = any(e >= max_ev for e in evs)
        msg = key = None
        if must_fail and got != "stepper error-max-events":
            key, msg = "event-id-not-checked", (
                f"Stepper accepted primaries with event id >= max_events={max_ev} "
                f"(ids {evs}): answered `{got}`; make_track_id then indexes track_counters "
                "out of bounds")
        elif not must_fail and not got.startswith("stepper ok generated=%d " % len(evs)):
            key, msg = "event-id-spurious-error", (
                f"Stepper refused/ mishandled primaries with event ids {evs} < max_events="
                f"{max_ev}: answered `{got}`")
        if key and n_bad < 3:
            n_bad += 1
            ctx.violation(key, msg, {"harness": "harness/trackinit.cc", "ops": [l], "impl": got,
                                     "event_ids": True,
                                     "contradicts": "Props/C16.lean event_id_checked_first"})
        if om is not None and k < len(om) and om[k] != got and not key:
            broken.append(f"correspondence(stepper event ids): `{l}` impl `{got}` model `{om[k]}`")
    return {"event_id_scenarios": len(lines), "event_id_answers": tags}


def run_interleave(ctx, ps):
    """model-side: random systems and schedules through the interleaving semantics of the Lean
    driver; the conclusions of `interleaved_allocs_disjoint` are re-evaluated on the outputs
    (guards the statement/driver, the proof is what covers all schedules)."""
    if not ps["model_ok"]:
        return {}
    rng = ctx.rng
    lines, meta = [], []
    for _ in range(150 if ctx.quick() else 2000):
        cap = rng.range(0, 24)
        base = rng.below(cap + 1)
        nth = rng.range(1, 7)
        ns = [rng.choice([1, 1, 2, 3, rng.range(1, cap + 2)]) for _ in range(nth)]
        sched = [rng.below(nth) for _ in range(rng.range(0, 4 * nth))]
        if rng.chance(1, 2):
            sched += [i for i in range(nth) for _ in range(3)]      # run to quiescence
        lines.append("threads %x %x " % (cap, base) + " ".join("%x" % n for n in ns))
        lines.append("sched " + " ".join("%x" % i for i in sched))
        meta.append((cap, base, ns))
    _, out = vlib.run_lines([vlib.model_exe("C16")], lines)
    bad = 0
    for k, (cap, base, ns) in enumerate(meta):
        o = out[2 * k + 1].split(" : ")
        size = int(o[0].split()[4])
        ths = [t.split("/") for t in (o[1].split() if len(o) > 1 else [])]
        oks = [(int(pc.split(":")[1]), int(n)) for n, pc in ths if pc.startswith("ok:")]
        fine = all(base <= a and a + n <= cap for a, n in oks)
        for i in range(len(oks)):
            for j in range(i + 1, len(oks)):
                a, n = oks[i]
                b, m = oks[j]
                fine = fine and (a + n <= b or b + m <= a)
        if all(pc.startswith("ok:") or pc == "failed" for _, pc in ths):
            fine = fine and size == base + sum(n for _, n in oks) and size <= cap
        if not fine and bad < 3:
            bad += 1
            ctx.violation("interleave-model", "interleaving model contradicts "
                          "interleaved_allocs_disjoint", {"ops": lines[2 * k:2 * k + 2],
                                                          "model": out[2 * k + 1]})
    return {"interleave_systems": len(meta)}


def run_loop(ctx, broken, ps):
    """H3 part: starved secondary stack / tight initializer capacity on a real CoreState (the
    real InteractionApplier + StackAllocator + capacity checks in the real action loop)."""
    from checks import c02
    exe, log, _ = vlib.build_harness("trackinit", HARNESS["trackinit"])
    if exe is None:
        ctx.violation("harness-build-trackinit", "harness/trackinit.cc no longer builds",
                      {"correspondence": "harness build", "log": log[-2000:]}, found_input=False)
        return {}
    n = 250 if ctx.quick() else 3000
    scripts, modes = [], []
    for k in range(n):
        if k % 5 == 2:
            scripts.append(c02.gen_boundary_script(ctx.rng))
        else:
            scripts.append(c02.gen_script(ctx.rng, ctx.rng.range(3, 14), mode="stepper",
                                          starved=(k % 4 != 3)))
        modes.append("stepper")
    model_ok = ps["model_ok"] and os.path.exists(vlib.model_exe("C02"))
    r = c02.run_all(ctx, exe, scripts, modes, model_ok, key_prefix="loop-")
    if r["diverged"]:
        broken.append(f"correspondence(loop): model and implementation differ on "
                      f"{len(r['diverged'])} scripts")
    failed = r["tags"].get("interact:failed", 0)
    caperr = r["tags"].get("efs:error-capacity", 0) + r["tags"].get("insert:error-capacity", 0)
    return {"loop_ops": r["ops"], "loop_distinct": r["distinct"], "loop_diverging": r["diverged"][:2],
            "loop_failed_interaction_steps": failed, "loop_capacity_errors": caperr,
            "loop_recoveries": r["tags"].get("recover:reset", 0),
            "loop_sample": r["resolved"][0][:8]}


def run(ctx):
    ps = common.proof_side(ctx, "C16", extra_targets=["celer_model_c02"])
    broken = list(ps["broken"])
    ctx.assumptions += [
        "model of StackAllocator.hh / InteractionApplier.hh is hand-written (Model/Stack.lean) and "
        "tied to the real code by differential runs; size_type arithmetic is modelled modulo 2^32",
        "interleaving semantics: each thread performs atomic fetch-add, the capacity check and the "
        "restoring store as separate atomic steps (what the code does on device/OpenMP-track); "
        "this build runs track loops sequentially (CELERITAS_OPENMP=event), so only the "
        "sequential semantics is observable in the harness",
        "no-wrap hypothesis: size0 + sum of all concurrent requests < 2^32 (beyond that "
        "`start + count` wraps and the real code would write out of bounds)",
        "reading of the statement (DESIGN §6 C16, §8 j): after a failed interaction the track "
        "stays alive at the same point with unchanged energy and gets step limit {0, failure "
        "action}; the interaction MFP was already consumed, so a new one is sampled — 'interacts "
        "again' is statistical (memoryless), not the same interaction replayed",
        "finding: when the secondary stack cannot hold the request of a single interaction the "
        "failed interaction is retried for ever (starved_stack_livelock); progress of a step is "
        "guaranteed exactly when capacity >= that request (first_request_succeeds)",
        "failed interactions are produced by a scripted model registered through the real "
        "PhysicsParams next to a second, secondary-free LAST model; all registered post-step "
        "actions are run in id order as ActionSequence does; the `physics-failure` id is looked "
        "up by label in the ActionRegistry",
        "starved-stack scripts use track orders none/init_charge only: which request fails "
        "depends on the kernel's thread order, modelled as slot order",
        "event-id validation is exercised through the real Stepper on a plain SimpleTestBase "
        "problem, one process per scenario",
        "`alloc(0)` and default-constructed (capacity 0) allocators violate CELER_EXPECT "
        "preconditions; capacity 0 is still exercised through a hand-built StackAllocatorData",
    ]
    cov = run_stack(ctx, broken, ps)
    cov.update(run_loop(ctx, broken, ps))
    cov.update(run_interleave(ctx, ps))
    cov.update(run_livelock(ctx, ps))
    cov.update(run_event_ids(ctx, broken, ps))
    if cov.get("livelock_model_agrees") is False:
        broken.append("correspondence(livelock script): model and implementation differ")
    if broken and not ctx.violations:
        ctx.violation("unproved", "; ".join(broken)[:600],
                      {"no_longer_checks": broken, "diverging": cov.get("stack_diverging")},
                      found_input=False)
    if not ctx.quick() and ps["build"]["ok"]:
        common.leanchecker(ctx, ["CelerVerif.Props.C16"])
    ctx.coverage.update(cov)
    ctx.coverage.update({
        "evaluations": cov.get("stack_ops", 0) + cov.get("loop_ops", 0),
        "distinct_nontrivial": cov.get("stack_distinct", 0) + cov.get("loop_distinct", 0),
        "rule": "allocator: random op scripts (new/alloc/write/get/clear/setsize) with capacities "
                "0,1,2,3,4..200 and request sizes 1, cap, cap+1, up to 2cap+2 and near 2^32, plus "
                "all request triples for capacities 0..6; a script is non-trivial if at least "
                "one allocation failed; distinct = distinct scripts. loop: random Stepper-order "
                "action scripts on a real CoreState with secondary-stack capacities 0..3*slots+1 "
                "and initializer capacities 1..1000; each failed interaction is checked in the "
                "harness to be a no-op on the real track (energy, direction, position, status, "
                "deposition, secondaries, stack size) and the dumps are diffed with the model; 1/5 "
                "of the loop scripts hit the initializer capacity at requirement = capacity-1, "
                "capacity, capacity+1 for insert and for the end-of-step action, and every "
                "reported/absent capacity error is re-derived from the dump before the action "
                "(error <=> requirement > capacity; Lean capacity_error_iff, "
                "insert_capacity_error_iff)",
        "samples": [cov.get("stack_sample", [])],
        "correspondence_broken": broken,
    })
    return LEVEL


def replay(ctx, data):
    r = data["replay"]
    if r.get("event_ids"):
        exe, log, _ = vlib.build_harness("trackinit", HARNESS["trackinit"])
        rc, oh = vlib.run_lines([exe], r["ops"])
        print(r["ops"][0], "->", oh[:1], "rc", rc)
        w = r["ops"][0].split()
        must_fail = any(int(e) >= int(w[1]) for e in w[3:])
        bad = (oh[:1] != ["stepper error-max-events"]) if must_fail else \
            not (oh and oh[0].startswith("stepper ok"))
        print("violation reproduced" if bad else "behaves as documented")
        return 1 if bad else 0
    if r.get("livelock"):
        exe, log, _ = vlib.build_harness("trackinit", HARNESS["trackinit"])
        script = livelock_script()
        _, oh = vlib.run_lines([exe], script)
        for l, o in list(zip(script, oh))[-6:]:
            print(l, "->", o[:160])
        seen = livelock_observed(script, oh)
        print("livelock reproduced" if seen else "not reproduced")
        return 1 if seen else 0
    if "ops" in r and r.get("harness", "").endswith("stack.cc"):
        exe, log, _ = vlib.build_harness("stack", HARNESS["stack"])
        _, oh = vlib.run_lines([exe], r["ops"])
        bad = stack_oracle(r["ops"], oh)
        for l, o in zip(r["ops"], oh):
            print(l, "->", o)
        print("oracle:", bad if bad else "holds")
        return 1 if bad else 0
    print(vlib.json.dumps(r, indent=1))
    return 0
