"""C15 — Random samplers respect their support and target distributions."""
import math
import os
import struct

import vlib
from checks import common, numself

LEVEL = "other"
HARNESS = {"dist": ["corecel", "celeritas"], "eloss": ["corecel", "celeritas"], "numself": ["corecel"]}
MANIFEST = {
    "category": "other",
    "technique": "Lean 4 proof at ℝ of a Num-generic model of every sampler (support, inverse-CDF "
                 "identities, unit norm, valid index, exact draw counts, first-accept characterisation "
                 "of the rejection loops); the same definitions run at Float bit-exactly against the "
                 "real templates instantiated with a ScriptedEngine; statistical oracle (KS / chi-square "
                 "with the real XorwowRngEngine) for the target distributions",
    "text": "Model/Dist.lean models UniformReal, Exponential, Normal (Box-Muller with spare), Gamma "
            "(Marsaglia-Tsang), Poisson (direct + Gaussian branch with the unsigned cast), Reciprocal, "
            "InverseSquare, Radial, Isotropic, UniformBox, Bernoulli, Selector, RejectionSampler (and "
            "its documented loop), TsaiUrban, the closed-form ionisation samplers (Model/DistIoni.lean: "
            "Moller, Bhabha, BetheBloch, BraggICRU73QO, MuBB with calc_max_secondary_energy), the "
            "energy-loss gamma/gaussian samplers, and (Model/"
            "DistEloss.lean) FluctuationParams' Urban parameters, EnergyLossHelper (kinematics, Bohr "
            "variance, model selection), EnergyLossUrbanDistribution (constructor with all branches, "
            "excitation / ionisation / fast sampling) and the helper-selected dispatch, as functions "
            "of an explicit list of canonical uniforms. For the Urban model it proves the defining "
            "identity loss_scaling*(xs1*E1 + xs2*E2 + xs_ion*<E>) = requested mean for every "
            "constructor branch, the sum rules of the material parameters, the Gaussian fast-path "
            "parameters, the mean split of the ionisation fast simulation, and loss >= 0. Props/C15.lean proves at ℝ, for u in [0,1) "
            "(or (0,1) where stated): every sample lies in the documented support, cdf(sample u) = u "
            "(or 1-u) for the inverse-CDF samplers, |isotropic| = 1, the selector index is < size and "
            "is the first index whose cumulative weight exceeds total*u, exact draw counts, and that "
            "each rejection loop returns at the first script position whose acceptance predicate "
            "holds. The model is executed at Float and must reproduce sample AND draw count of the "
            "real code exactly. Goodness of fit of the rejection-based samplers is a statistical TEST "
            "(not a proof).",
    "design_ref": "DESIGN.md §6 C15",
    "note": "Partial: proofs are about the real-number reading (rounding not modelled: at Float the "
            "half-open upper bound b of [a,b) can be attained by rounding); the Poisson Gaussian "
            "branch (repaired in /repo 73ca547: clamp at 0) is proved for counts that fit the 32-bit "
            "result type; u = 0 gives +inf / NaN through log(0) in Exponential and "
            "Normal; target distributions of normal/gamma/Poisson/Tsai-Urban and the sampled mean / "
            "variance of the energy-loss models are tested statistically only (the Urban mean identity "
            "itself is proved on the constructor's cross sections).",
}

TWO53 = float(1 << 53)
EXTREME_U = [0.0, 2.0 ** -53, 1.0 - 2.0 ** -53, 0.5, 0.25, 0.75, 2.0 ** -32, 5e-324, 1e-300,
             0.75 + 2.0 ** -53, 0.25 - 2.0 ** -54]


def hx(x):
    return "%016x" % struct.unpack("<Q", struct.pack("<d", float(x)))[0]


def fl(s):
    return struct.unpack("<d", struct.pack("<Q", int(s, 16)))[0]


def rnd_u(rng):
    k = rng.below(12)
    if k == 0:
        return rng.choice(EXTREME_U)
    if k == 1:
        return 10.0 ** -rng.range(1, 30) * rng.unit()
    if k == 2:
        return 1.0 - (rng.below(1 << 12) + 1) / TWO53
    return rng.unit()


def script(rng, lo, hi):
    """mostly `hi` uniforms (enough for a typical accept), sometimes fewer (exhaustion path)"""
    n = hi if rng.chance(5, 6) else rng.range(lo, hi)
    return [rnd_u(rng) for _ in range(n)]


def logu(rng, lo, hi):
    """10^U(lo,hi)"""
    return 10.0 ** (lo + (hi - lo) * rng.unit())


def rnd_real(rng):
    k = rng.below(6)
    if k == 0:
        return float(rng.range(-5, 5))
    if k == 1:
        return rng.choice([0.0, 1.0, -1.0, 1e-100, -1e100, 1e100, 2.0 ** -1022])
    s = -1.0 if rng.chance(1, 2) else 1.0
    return s * logu(rng, -20, 20)


def rnd_pos(rng, lo=-30, hi=30):
    if rng.chance(1, 8):
        return rng.choice([1.0, 2.0, 0.5, 1e-100, 1e100, 3.0, 1e-5])
    return logu(rng, lo, hi)


OPS = ["uniform", "exp", "normal", "normop", "normop", "gamma", "poisson", "recip", "recip1", "invsq", "radial", "iso",
       "box", "bern", "bern2", "select", "reject", "reject1", "rejloop", "tsai", "elgamma", "elgauss",
       "elgaussv"]


def gen_case(rng, op=None):
    """returns (op line, meta) ; parameters satisfy the documented preconditions"""
    op = op or rng.choice(OPS)
    if op == "uniform":
        a = rnd_real(rng)
        b = a if rng.chance(1, 20) else a + abs(rnd_real(rng))
        p, s = [a, b], script(rng, 0, 2)
    elif op == "exp":
        p, s = [rnd_pos(rng, -200, 200)], script(rng, 0, 2)
    elif op == "normal":
        k = rng.range(1, 5)
        p, s = [rnd_real(rng), rnd_pos(rng)], script(rng, 0, 2 * k + 1)
        return fmt(op, p, s, ints=[k]), (op, p, s, k)
    elif op == "normop":
        # special members of NormalDistribution: kind 1 move-ctor, 2 copy-assign, 3 move-assign;
        # pre1 / pre2 odd => a pending spare value on that side
        kind, p1, p2, k = rng.range(1, 3), rng.below(4), rng.below(4), rng.range(1, 4)
        p = [rnd_real(rng), rnd_pos(rng), rnd_real(rng), rnd_pos(rng)]
        s = script(rng, 0, 2 * (p1 + p2 + 2 * k) + 2)
        return fmt(op, p, s, ints_first=[kind], ints=[p1, p2, k]), (op, p, s, kind)
    elif op == "gamma":
        k = rng.range(1, 3)
        alpha = rng.choice([1.0, 0.5, 2.0, 1.0 / 3, 1e-3, 1e3]) if rng.chance(1, 4) else logu(rng, -4, 4)
        p, s = [alpha, rnd_pos(rng, -10, 10)], script(rng, 0, 6 * k + 4)
        return fmt(op, p, s, ints=[k]), (op, p, s, k)
    elif op == "poisson":
        k = rng.range(1, 3)
        c = rng.below(8)
        if c == 0:
            lam = rng.choice([16.0, 16.000001, 16.0 + 2.0 ** -48, 15.999999999, 17.0, 1.0, 1e-3, 1e-300])
        elif c <= 3:
            lam = 16.0 * rng.unit() + 1e-9
        elif c <= 5:
            lam = 16.0 + logu(rng, -6, 2)
        else:
            lam = logu(rng, 1.3, 9)
        p, s = [lam], script(rng, 0, (int(min(lam, 16)) + 4) * k + 2 if lam <= 16 else 2 * k + 1)
        return fmt(op, p, s, ints=[k]), (op, p, s, k)
    elif op in ("recip", "invsq"):
        a = rnd_pos(rng, -40, 40)
        b = a * logu(rng, 0, 20) if (op == "invsq" or rng.chance(2, 3)) else a / logu(rng, 0, 20)
        if rng.chance(1, 20):
            b = a
        p, s = [a, b], script(rng, 0, 2)
    elif op == "recip1":
        p, s = [rnd_pos(rng, -40, 40)], script(rng, 0, 2)
    elif op == "radial":
        p, s = [rnd_pos(rng, -100, 100)], script(rng, 0, 2)
    elif op == "iso":
        p, s = [], script(rng, 0, 3)
    elif op == "box":
        lo = [rnd_real(rng) for _ in range(3)]
        hi = [l if rng.chance(1, 15) else l + abs(rnd_real(rng)) for l in lo]
        p, s = lo + hi, script(rng, 0, 4)
    elif op == "bern":
        pr = rng.choice([0.0, 1.0, 0.5, 0.25, 2.0 ** -53, 1 - 2.0 ** -53]) if rng.chance(1, 4) else rng.unit()
        p, s = [pr], script(rng, 0, 2)
    elif op == "bern2":
        t, f = rnd_pos(rng, -20, 20), rnd_pos(rng, -20, 20)
        if rng.chance(1, 10):
            t = 0.0
        elif rng.chance(1, 10):
            f = 0.0
        p, s = [t, f], script(rng, 0, 2)
    elif op == "select":
        n = rng.range(1, 9)
        w = [0.0 if rng.chance(1, 6) else (rng.unit() if rng.chance(2, 3) else rnd_pos(rng, -5, 5))
             for _ in range(n)]
        if all(v == 0.0 for v in w):
            w[rng.below(n)] = 1.0
        tot = 0.0
        for v in w:
            tot += v
        c = rng.below(10)
        if c == 0:
            tot *= 1.5          # inconsistent total (release build does not check): still a valid index
        elif c == 1:
            tot *= 0.5
        p, s = [tot] + w, script(rng, 0, 2)
    elif op == "reject":
        fm = rnd_pos(rng, -20, 20)
        f = fm * rng.unit() if rng.chance(4, 5) else rng.choice([0.0, fm])
        p, s = [f, fm], script(rng, 0, 2)
    elif op == "reject1":
        p, s = [rng.unit()], script(rng, 0, 2)
    elif op == "rejloop":
        kind = rng.below(3)
        a, b = (0.0, 1.0) if rng.chance(2, 3) else (rng.unit() * 0.5, 0.5 + rng.unit() * 0.5)
        fm = 1.0 if rng.chance(2, 3) else 1.0 + rng.unit()
        p, s = [a, b, fm], script(rng, 0, 9)
        return fmt(op, p, s, ints_first=[kind]), (op, p, s, kind)
    elif op == "tsai":
        e = logu(rng, -3, 7)
        m = rng.choice([0.51099894609999996, 105.6583745, 938.272])
        p, s = [e, m], script(rng, 0, 10)
    elif op == "elgamma":
        mean = logu(rng, -4, 2)
        var = mean * mean * logu(rng, -2, 2)
        p, s = [mean, var], script(rng, 0, 10)
    elif op == "elgauss":
        mean = logu(rng, -4, 2)
        p, s = [mean, mean * logu(rng, -2, 1)], script(rng, 0, 12)
    else:  # elgaussv
        mean = logu(rng, -4, 2)
        p, s = [mean, (mean * logu(rng, -2, 1)) ** 2], script(rng, 0, 12)
    return fmt(op, p, s), (op, p, s, None)


def fmt(op, p, s, ints=(), ints_first=()):
    w = [op] + ["%x" % i for i in ints_first] + [hx(v) for v in p] + ["%x" % i for i in ints]
    return " ".join(w + ["|"] + [hx(u) for u in s])


# directed cases: extremes of the script at parameters where a branch threshold matters
def directed():
    out = []
    for lam in (16.000001, 16.0 + 2.0 ** -48, 16.5, 20.0, 30.0, 72.0):
        for u1 in (0.75, 0.75 + 2.0 ** -53, 0.7501):
            for u2 in (2.0 ** -53, 1e-9, 1e-5):
                out.append(fmt("poisson", [lam], [u1, u2], ints=[1]))
    for lam in (1.0, 1e-300, 1e300, 0.3):
        for u in (0.0, 2.0 ** -53, 1 - 2.0 ** -53, 0.5):
            out.append(fmt("exp", [lam], [u]))
    for u1 in (0.0, 0.25, 0.5, 0.75, 1 - 2.0 ** -53):
        for u2 in (0.0, 2.0 ** -53, 1 - 2.0 ** -53, 0.5):
            out.append(fmt("normal", [0.0, 1.0], [u1, u2], ints=[2]))
            out.append(fmt("iso", [], [u1, u2]))
            out.append(fmt("elgauss", [1.0, 0.5], [u1, u2, 0.3, 0.3]))
            out.append(fmt("gamma", [0.5, 1.0], [u1, u2, 0.5, u2], ints=[1]))
            out.append(fmt("gamma", [2.5, 1.0], [u1, u2, u2, 0.5, 0.5, 0.5], ints=[1]))
    for kind in (1, 2, 3):
        for p1 in (0, 1, 2):
            for p2 in (0, 1, 2):
                out.append(fmt("normop", [0.0, 1.0, 5.0, 3.0],
                               [0.1, 0.2, 0.3, 0.4, 0.6, 0.7, 0.8, 0.9, 0.15, 0.25, 0.35, 0.45, 0.55, 0.65,
                                0.75, 0.85], ints_first=[kind], ints=[p1, p2, 3]))
    for a, b in ((1.0, 2.0), (0.0, 1.0), (-1.0, 1.0), (1.0, 1.0 + 2.0 ** -52), (3.0, 3.0)):
        for u in (0.0, 2.0 ** -53, 1 - 2.0 ** -53, 0.5):
            out.append(fmt("uniform", [a, b], [u]))
            if a > 0:
                out.append(fmt("recip", [a, b], [u]))
                out.append(fmt("recip", [b, a], [u]))
                out.append(fmt("invsq", [a, b], [u]))
            out.append(fmt("radial", [b + 1], [u]))
            out.append(fmt("bern", [0.5 if a else 0.0], [u]))
            out.append(fmt("select", [1.0, 0.25, 0.25, 0.5], [u]))
            out.append(fmt("select", [1.0, 0.0, 0.0, 0.0], [u]))
            out.append(fmt("tsai", [1.0, 0.511], [u, 0.5, u, 0.3, 0.3, 0.3]))
    for lam in (16.0, 15.0, 1e-3):
        out.append(fmt("poisson", [lam], [1 - 2.0 ** -53] * 40, ints=[1]))
        out.append(fmt("poisson", [lam], [0.0], ints=[1]))
    out += ["castu " + hx(v) for v in (-1.5, -0.5, -1.0, 0.0, 0.999, 4294967295.5, 4294967296.0, 1e19,
                                       -1e19, 9.3e18, float("nan"), float("inf"), -9223372036854775808.0)]
    out += ["cbrt " + hx(v) for v in (0.0, 1.0, 0.125, 1 - 2.0 ** -53, 2.0 ** -53, 5e-324, 0.3)]
    out += ["consts", "frob", "", "uniform 1 2", "select %s | %s" % (hx(1.0), hx(0.5)), "normal 0 1 0 | 0"]
    return out


def stdcanon_lines(rng, n):
    """default GenerateCanonical (std::generate_canonical<double,53> on a 32-bit engine)"""
    out = []
    ext = [0, 1, 0xffffffff, 0xfffffc00, 0xfffffbff, 0xfffffe00, 0x80000000, 0x7fffffff, 0x400, 0x3ff]
    for a in ext:
        for b in ext:
            out.append("stdcanon %x %x" % (a, b))
    for _ in range(n):
        a = rng.choice(ext) if rng.chance(1, 4) else rng.next() & 0xffffffff
        b = rng.choice(ext) if rng.chance(1, 4) else rng.next() & 0xffffffff
        out.append("stdcanon %x %x" % (a, b))
    out += ["stdcanon 5", "stdcanon"]
    return out


def stdcanon_ref(line):
    w = [int(t, 16) for t in line.split()[1:]]
    if len(w) < 2:
        return "script-exhausted"
    r = float(w[0] + (w[1] << 32)) / 18446744073709551616.0     # one rounding, then exact scaling
    if r >= 1.0:
        r = 1.0 - 2.0 ** -53                                     # libstdc++ clamps to nextafter(1, 0)
    return "%s 2" % hx(r)


def nan_tolerant_equal(a, b):
    if a == b:
        return True
    wa, wb = a.split(), b.split()
    if len(wa) != len(wb):
        return False
    return all(x == y or (numself.is_nan_bits(x) and numself.is_nan_bits(y) and len(x) == 16)
               for x, y in zip(wa, wb))


# --------------------------------------------------------------------------- energy-loss models
E0 = 1e-5            # ionization_energy()
PARTICLES = ["e-", "e+", "mu-", "mu+", "p"]
MATERIALS = ["C", "Ar(gas)", "Cu", "Pb", "Ar(liquid)"]
E_RANGE = {0: (-3, 3), 1: (-3, 3), 2: (-2.3, 4), 3: (-2.3, 4), 4: (-1.3, 4)}   # log10 MeV


def eloss_world(exe):
    """material / particle data dumped by the RUNNING code (harness/eloss.cc)"""
    _, o = vlib.run_lines([exe], ["consts"] + ["matdata %x" % m for m in range(5)])
    c = o[0].split()
    w = {"re": c[0], "pi": c[1], "me": c[2],
         "part": [(c[3 + 2 * i], c[4 + 2 * i]) for i in range(5)], "pm": c[13], "mat": []}
    for m in range(5):
        t = o[1 + m].split()
        w["mat"].append({"eldens": t[0], "numdens": t[1], "matdata": t[2:10],
                         "I": fl(t[2]), "logI": fl(t[3]), "E1": fl(t[6]), "E2": fl(t[7]),
                         "logE1": fl(t[8]), "logE2": fl(t[9]), "f1": fl(t[4]), "f2": fl(t[5])})
    return w


def helper_words(w, m, p, energy, cutoff, mean, step):
    return (["%x" % m, "%x" % p, w["mat"][m]["eldens"], w["me"], w["part"][p][0], w["part"][p][1],
             "1" if p == 0 else "0", w["re"]] + [hx(v) for v in (energy, cutoff, mean, step)])


def py_helper(w, m, p, energy, cutoff, mean, step):
    """independent (python float) evaluation of EnergyLossHelper, used only to steer generators
    and to label branches"""
    me, mp = fl(w["me"]), fl(w["part"][p][0])
    if mean < E0:
        return "none", 0.0, 0.0, 0.0, 0.0
    gamma = 1 + energy / mp
    b2 = 1 - (mp / (energy + mp)) ** 2
    tm = 2 * me * b2 * gamma * gamma
    if p == 0:
        ratio, tmax = 1.0, 0.5 * energy
    else:
        ratio = me / mp
        tmax = tm / (1 + ratio * (2 * gamma + ratio))
    emax = min(cutoff, tmax)
    if emax <= E0:
        return "none", emax, b2, tm, 0.0
    q = fl(w["part"][p][1])
    bohr = (2 * math.pi * fl(w["re"]) ** 2 * me * fl(w["mat"][m]["eldens"]) * q * q * emax * step
            * (1 / b2 - 0.5))
    if ratio >= 1 or mean < 10 * emax or tmax > 2 * emax:
        mod = "urban"
    elif mean * mean >= 4 * bohr:
        mod = "gaussian"
    else:
        mod = "gamma"
    return mod, emax, b2, tm, bohr


def urban_branch(md, mean, emax, tm, b2):
    """which constructor / sampling branches an Urban case reaches (python evaluation)"""
    ls = 0.5 * min(1e-3 / emax, 1.0) + 1
    ml = mean / ls
    x1 = x2 = 0.0
    tag = "no-exc(Emax<=I)"
    if emax > md["I"]:
        w = math.log(tm) - b2
        if w > md["logI"]:
            if w > md["logE2"]:
                c = ml * (1 - 0.56) / (w - md["logI"])
                x1 = c * md["f1"] * (w - md["logE1"]) / md["E1"]
                x2 = c * md["f2"] * (w - md["logE2"]) / md["E2"]
                tag = "two-level"
            else:
                x1 = ml * (1 - 0.56) / md["E1"]
                tag = "slow-window"
            sc = 0.5 + 3.5 * math.sqrt(x1 / 42) if x1 < 42 else 4.0
            x1 /= sc
        else:
            tag = "no-exc(w<=w0)"
    xi = ml * (emax - E0) / (emax * E0 * math.log(emax / E0))
    if x1 + x2 > 0:
        xi *= 0.56
    tags = [tag]
    if x1 > 8 and x2 > 8:
        tags.append("both-levels-gauss")
    elif x1 > 8 or x2 > 8:
        tags.append("one-level-gauss")
    if 0 < x1 <= 8 or 0 < x2 <= 8:
        tags.append("exc-poisson")
    tags.append("ion-fast" if xi > 8 else "ion-poisson")
    return tags, (x1, x2, xi)


def gen_urban_params(rng, w):
    """(m, mean, emax, two_mebsgs, beta_sq) covering every constructor branch"""
    m = rng.below(5)
    md = w["mat"][m]
    b2 = rng.choice([1e-4, 0.5, 0.999]) if rng.chance(1, 6) else min(0.999999, logu(rng, -4, 0))
    k = rng.below(8)
    if k == 0:                                    # Emax <= I
        emax = E0 * (1.0001 + rng.unit() * (md["I"] / E0 - 1.0001))
    elif k == 1:
        emax = rng.choice([1e-3, 2e-3, 5e-4, md["I"] * 1.0000001, 1.0])
    else:
        emax = logu(rng, math.log10(md["I"]), 2)
    c = rng.below(6)
    if c == 0:                                    # w <= w0
        wv = md["logI"] - rng.unit() * 3
    elif c <= 2 and md["logI"] < md["logE2"]:     # slow-particle window  w0 < w <= log E2
        wv = md["logI"] + (md["logE2"] - md["logI"]) * (1.0 if rng.chance(1, 10) else rng.unit())
    else:
        wv = md["logE2"] + 10 ** (-3 + 4.3 * rng.unit())
    tm = math.exp(wv + b2)
    mean = logu(rng, -5, 1.5) if rng.chance(3, 4) else logu(rng, -2, 0.5)
    return m, mean, emax, tm, b2


def gen_eloss_lines(rng, w, n):
    """op lines for harness/eloss.cc + model, with branch tags"""
    lines, tags = [], []
    for m in range(5):
        md = w["mat"][m]
        lines.append("uparams %x %s %s %s |" % (m, md["eldens"], md["numdens"], md["matdata"][0]))
        tags.append(["uparams"])
    for _ in range(n):
        k = rng.below(10)
        if k < 5:
            m, mean, emax, tm, b2 = gen_urban_params(rng, w)
            md = w["mat"][m]
            tg, _ = urban_branch(md, mean, emax, tm, b2)
            head = ["%x" % m] + md["matdata"] + [hx(v) for v in (mean, emax, tm, b2)]
            if k == 0:
                lines.append("urbanctor " + " ".join(head) + " |")
            else:
                sc = [rnd_u(rng) for _ in range(70 if rng.chance(5, 6) else rng.range(0, 30))]
                lines.append("urban " + " ".join(head) + " | " + " ".join(hx(u) for u in sc))
            tags.append(["urban:" + t for t in tg])
        else:
            m, p = rng.below(5), rng.below(5)
            lo, hi = E_RANGE[p]
            energy = logu(rng, lo, hi)
            step = logu(rng, -5, 1)
            c = rng.below(4)
            cutoff = rng.choice([1e-3, 1e-2, 0.1, 1.0]) if rng.chance(1, 3) else logu(rng, -4.5, 1)
            _, emax0, _, _, _ = py_helper(w, m, p, energy, 1e30, 1.0, step)     # emax0 = Tmax
            if c == 0 and p >= 2:
                cutoff = emax0 * (0.5 + rng.unit())           # Tmax <= 2 cutoff : gaussian / gamma
            mean = energy * logu(rng, -6, -0.02)
            if c <= 1 and p >= 2:
                mean = min(cutoff, emax0) * logu(rng, 1, 3.5)
            if rng.chance(1, 30):
                mean = E0 * rng.choice([0.5, 0.999, 1.0, 1.001])
            hw = helper_words(w, m, p, energy, cutoff, mean, step)
            mod = py_helper(w, m, p, energy, cutoff, mean, step)[0]
            if k < 7:
                lines.append("helper " + " ".join(hw) + " |")
            else:
                sc = [rnd_u(rng) for _ in range(70 if rng.chance(5, 6) else rng.range(0, 20))]
                lines.append("eloss " + " ".join(hw + w["mat"][m]["matdata"]) + " | "
                             + " ".join(hx(u) for u in sc))
            tags.append(["helper:" + mod + ":" + PARTICLES[p]])
    lines += ["helper 0 0 1 |", "urban 0 |", "eloss |", "uparams 0 0 |"]
    tags += [["malformed"]] * 4
    return lines, tags


# --------------------------------------------------------------------------- ionisation samplers
ME = 0.5109989461


def py_tmax(me, mp, energy):
    ratio, tau = me / mp, energy / mp
    return 2 * me * tau * (tau + 2) / (1 + 2 * (tau + 1) * ratio + ratio * ratio)


def py_beta_sq(mp, energy):
    return 1 - (mp / (energy + mp)) ** 2


def moller_g(gamma, e):
    t = (2 * gamma - 1) / gamma ** 2
    c = 1 - e
    return 1 - t * e + e * e * (1 - t + (1 - t * c) / (c * c))


def bhabha_g(gamma, emin, emax):
    y = 1 / (1 + gamma)
    o = 1 - 2 * y
    b1, b2, b4 = 2 - y * y, o * (3 + y * y), o ** 3
    b3 = o * o + b4
    return 1 + (emax ** 4 * b4 - emin ** 3 * b3 + emax ** 2 * b2 - emin * b1) * (1 - 1 / gamma ** 2)


def mubb_target(mp, me, energy, t, tmax):
    """(target, envelope, use_rad) of MuBBEnergyDistribution (python evaluation)"""
    tot, b2 = energy + mp, py_beta_sq(mp, energy)
    use = energy > 250 and tmax > 0.1
    aot = 7.2973525693e-3 / (2 * math.pi)
    env = 1 + aot * math.log(2 * tot / mp) ** 2 if use else 1.0
    g = 1 - b2 / tmax * t + 0.5 * (t / tot) ** 2
    if use and t > 0.1:
        a1 = math.log(1 + 2 * t / me)
        a3 = math.log(4 * tot * (tot - t) / mp ** 2)
        g *= 1 + aot * a1 * (a3 - a1)
    return g, env, use


def ioni_script(rng, n):
    k = n if rng.chance(5, 6) else rng.range(0, n)
    sc = [rnd_u(rng) for _ in range(k)]
    if rng.chance(1, 5) and k >= 2:      # endpoints of the proposal with a sure accept / reject
        sc[0] = rng.choice([0.0, 1 - 2.0 ** -53, 2.0 ** -53, 0.5])
        sc[1] = rng.choice([0.0, 2.0 ** -53, 1 - 2.0 ** -53, sc[1]])
    return sc


def gen_ioni_lines(rng, w, n):
    """(dist-harness lines, eloss-harness lines) with tags"""
    dl, dt, el, et = [], [], [], []
    me = w["me"]
    for _ in range(n):
        k = rng.below(5)
        sc = " ".join(hx(u) for u in ioni_script(rng, 12))
        if k < 2:
            inc = logu(rng, -3, 4)
            top = 0.5 if k == 0 else 1.0
            c = rng.below(6)
            mn = inc * top * (1.0 if c == 0 else (1 - 2.0 ** -40) if c == 1 else 10 ** (-6 * rng.unit()))
            dl.append("%s %s %s %s | %s" % ("moller" if k == 0 else "bhabha", me, hx(mn), hx(inc), sc))
            dt.append(["moller" if k == 0 else "bhabha"])
        else:
            op = ["bb", "bragg", "mubb"][k - 2]
            p = rng.choice([2, 3, 4]) if op != "mubb" else rng.choice([2, 3])
            mp = fl(w["part"][p][0])
            if op == "bragg":
                energy = mp * logu(rng, -5, -2.3)
            elif op == "mubb":
                energy = logu(rng, -0.7, 6.5)
            else:
                energy = mp * logu(rng, -3, 3)
            tmax = py_tmax(fl(me), mp, energy)
            c = rng.below(6)
            cut = tmax * (1.0 if c == 0 else (1 - 2.0 ** -30) if c == 1 else 10 ** (-5 * rng.unit()))
            words = ["%x" % p, w["part"][p][0], w["part"][p][1], me, hx(energy), hx(cut)]
            tg = [op + ":" + PARTICLES[p]]
            if op == "bragg":
                words.append(w["pm"])
                low = (5e-3 if fl(w["part"][p][1]) < 0 else 2.5e-4) * mp / fl(w["pm"])
                tg.append("bragg:min=" + ("cutoff" if cut <= low else "model-limit"))
            if op == "mubb":
                tg.append("mubb:" + ("rad" if (energy > 250 and tmax > 0.1) else "no-rad"))
            el.append("%s %s | %s" % (op, " ".join(words), sc))
            et.append(tg)
    # directed endpoints
    for top, op in ((0.5, "moller"), (1.0, "bhabha")):
        for inc in (1e-2, 1.0, 100.0):
            for mn in (inc * top, inc * top * 1e-3):
                for u1 in (0.0, 2.0 ** -53, 1 - 2.0 ** -53, 0.5):
                    dl.append("%s %s %s %s | %s %s %s %s" % (op, me, hx(mn), hx(inc), hx(u1), hx(0.0),
                                                             hx(u1), hx(0.0)))
                    dt.append([op, "endpoint"])
    for op, p, energy in (("bb", 4, 10.0), ("bb", 2, 1000.0), ("bragg", 4, 1.0), ("bragg", 2, 0.1),
                          ("mubb", 2, 1000.0), ("mubb", 3, 10.0)):
        mp = fl(w["part"][p][0])
        tmax = py_tmax(fl(me), mp, energy)
        for cut in (tmax, tmax * 1e-3, 0.00086089962285247038):
            if cut > tmax:
                continue
            for u1 in (0.0, 2.0 ** -53, 1 - 2.0 ** -53, 0.5):
                words = ["%x" % p, w["part"][p][0], w["part"][p][1], me, hx(energy), hx(cut)]
                if op == "bragg":
                    words.append(w["pm"])
                el.append("%s %s | %s %s %s %s" % (op, " ".join(words), hx(u1), hx(0.0), hx(u1), hx(0.0)))
                et.append([op + ":" + PARTICLES[p], "endpoint"])
    dl += ["moller 1 2 |", "bhabha |"]
    dt += [["malformed"]] * 2
    el += ["mubb 2 |", "bragg 4 0 |"]
    et += [["malformed"]] * 2
    return (dl, dt), (el, et)


def ioni_oracle(line, out):
    """impl-side support predicate: sampled secondary energy (fraction) inside its documented
    interval (closed, 4 ulp of rounding slack; bounds attained / passed by rounding are counted as
    notes, cf. C04 endpoint-below-cut:ioni); MuBB: accepted target <= envelope"""
    w = line.split()
    op = w[0]
    if "|" not in w or out.endswith("script-exhausted") or out in ("bad-op", "bad-data"):
        return ("oracle:ioni:bad-data", "harness rejected the op data") if out == "bad-data" else None
    ow = out.split()
    if op in ("moller", "bhabha"):
        mn, inc = fl(w[2]), fl(w[3])
        lo, hi, x = mn / inc, (0.5 if op == "moller" else 1.0), fl(ow[0])
        gam = 1 + inc / fl(w[1])
        gx = moller_g(gam, x) if op == "moller" else bhabha_g(gam, x, x)
        gden = moller_g(gam, 0.5) if op == "moller" else bhabha_g(gam, lo, 1.0)
        if not (0 <= gx <= gden * (1 + 1e-12)):
            return ("oracle:%s:envelope" % op, "rejection function %r outside [0, envelope %r] at "
                    "epsilon=%r" % (gx, gden, x))
    else:
        lo, hi, x = fl(ow[0]), fl(ow[1]), fl(ow[-2])
    if not (lo * (1 - 4.5e-16) <= x <= hi * (1 + 4.5e-16)):
        return ("oracle:%s:support" % op, "sampled %r outside [%r, %r]" % (x, lo, hi))
    if x < lo:
        BOUNDARY[op + ":below-min-by-rounding"] = BOUNDARY.get(op + ":below-min-by-rounding", 0) + 1
    if x > hi:
        BOUNDARY[op + ":above-max-by-rounding"] = BOUNDARY.get(op + ":above-max-by-rounding", 0) + 1
    if op == "mubb":
        mp, me, energy = fl(w[2]), fl(w[4]), fl(w[5])
        g, env, use = mubb_target(mp, me, energy, x, hi)
        if (ow[2] == "1") != use or g > env * (1 + 1e-12) or g < 0:
            return ("oracle:mubb:envelope", "target %r outside [0, envelope %r] at T=%r (E=%r)" % (
                g, env, x, energy))
    return None


def numeric_cdf(pdf, lo, hi, n=4000):
    """tabulated CDF of an unnormalised density on [lo, hi] (log-spaced Simpson panels)"""
    if hi <= lo * (1 + 1e-12):
        return lambda x: 0.0 if x < lo else 1.0
    r = math.log(hi / lo)
    xs = [lo * math.exp(r * i / n) for i in range(n + 1)]
    xs[-1] = hi
    cum = [0.0]
    for i in range(n):
        a, b = xs[i], xs[i + 1]
        m = 0.5 * (a + b)
        cum.append(cum[-1] + (b - a) / 6 * (pdf(a) + 4 * pdf(m) + pdf(b)))
    tot = cum[-1]

    def cdf(x):
        if x <= lo:
            return 0.0
        if x >= hi:
            return 1.0
        i = min(int(math.log(x / lo) / r * n), n - 1)
        while i > 0 and xs[i] > x:
            i -= 1
        while i < n - 1 and xs[i + 1] < x:
            i += 1
        f = (x - xs[i]) / (xs[i + 1] - xs[i])
        return (cum[i] + f * (cum[i + 1] - cum[i])) / tot
    return cdf


def ioni_stat_cases(rng, w, n_cases):
    cases = []
    me = fl(w["me"])
    for k in range(n_cases):
        kind = k % 5
        if kind < 2:
            inc = logu(rng, -2, 3)
            top = 0.5 if kind == 0 else 1.0
            mn = inc * top * 10 ** (-0.3 - 3 * rng.unit())
            gamma = 1 + inc / me
            if kind == 0:
                def pdf(e, gamma=gamma):
                    return moller_g(gamma, e) / (e * e)
            else:
                def pdf(e, gamma=gamma):
                    return bhabha_g(gamma, e, e) / (e * e)
            cases.append({"harness": "dist", "op": "moller" if kind == 0 else "bhabha",
                          "words": [w["me"], hx(mn), hx(inc)], "cdf": numeric_cdf(pdf, mn / inc, top),
                          "desc": "%s T=%.4g cut=%.4g" % ("Moller" if kind == 0 else "Bhabha", inc, mn)})
        else:
            op = ["bb", "bragg", "mubb"][kind - 2]
            p = rng.choice([2, 3, 4]) if op != "mubb" else rng.choice([2, 3])
            mp = fl(w["part"][p][0])
            energy = (mp * logu(rng, -5, -2.3) if op == "bragg" else logu(rng, -0.7, 6) if op == "mubb"
                      else mp * logu(rng, -2, 3))
            tmax = py_tmax(me, mp, energy)
            cut = tmax * 10 ** (-0.2 - 4 * rng.unit())
            lo = cut
            words = ["%x" % p, w["part"][p][0], w["part"][p][1], w["me"], hx(energy), hx(cut)]
            if op == "bragg":
                words.append(w["pm"])
                lo = min(cut, (5e-3 if fl(w["part"][p][1]) < 0 else 2.5e-4) * mp / fl(w["pm"]))
            b2 = py_beta_sq(mp, energy)
            if op == "mubb":
                def pdf(t, mp=mp, energy=energy, tmax=tmax):
                    return mubb_target(mp, me, energy, t, tmax)[0] / (t * t)
            else:
                def pdf(t, b2=b2, tmax=tmax):
                    return (1 - b2 * t / tmax) / (t * t)
            cases.append({"harness": "eloss", "op": op, "words": words, "cdf": numeric_cdf(pdf, lo, tmax),
                          "desc": "%s %s E=%.4g cut=%.4g Tmax=%.4g" % (op, PARTICLES[p], energy, cut, tmax)})
    return cases


def ioni_stat_oracle(ctx, exes, w, n_cases, n, alpha=1e-4):
    """TEST: KS distance between the sampled secondary energies (real XorwowRngEngine) and the
    analytic differential cross-section shape f(T) g(T); 3-seed retest before reporting"""
    res, total = {}, 0
    base = ctx.seed * 31337 + 7
    for ci, c in enumerate(ioni_stat_cases(ctx.rng, w, n_cases)):
        def pval(seed):
            _, o = vlib.run_lines([exes[c["harness"]]], ["stat %x %x %s %s" % (seed, n, c["op"], " ".join(c["words"]))])
            xs = [fl(t) for t in o[0].split()]
            return ks_pvalue(xs, c["cdf"])[0], len(xs)
        pv, cnt = pval(base + ci)
        total += cnt
        res[c["desc"]] = pv
        if pv < alpha:
            again = [pval(base + 15485863 * (j + 1) + ci)[0] for j in range(3)]
            total += 3 * cnt
            res[c["desc"] + " (confirm)"] = again
            if all(q < alpha for q in again):
                ctx.violation("stat:ioni-shape:" + c["op"],
                              f"statistical test: {c['desc']}: sampled secondary energies do not follow "
                              f"the analytic shape (KS p={pv:.3g}, confirmation {again})",
                              {"harness": "harness/%s.cc" % c["harness"],
                               "op": "stat %x %x %s %s" % (base + ci, n, c["op"], " ".join(c["words"])),
                               "p_values": [pv] + again, "alpha": alpha, "n": n})
    return res, total


RHO = [2.26, 1.78e-3, 8.96, 11.35, 1.396]       # g/cm^3 of harness materials (steering only)


def tail_ok(xs_ion, emax, n):
    """the 1/E^2 ionisation spectrum on [E0, Emax] is heavy-tailed: the standard error estimated
    from n samples is only meaningful if the top decade of the spectrum is populated (>= 100
    expected collisions above Emax/10)"""
    return n * xs_ion * 10 * E0 / emax >= 100


def gen_eloss_stat_cases(rng, w, n_helper, n_urban, n):
    """statistical cases: helper-selected model over materials x particles x energies (incl. the
    slow-particle window) x step thickness (thin to thick, consistent with the mean loss), and
    direct Urban cases steered into every constructor / sampler branch"""
    cases, skipped = [], 0
    k = tries = 0
    while k < n_helper and tries < 100 * n_helper + 1000:
        tries += 1
        m, p = [0, 1, 2, 3][k % 4], (k // 4) % 5
        lo, hi = E_RANGE[p]
        energy = logu(rng, lo, hi)
        if rng.chance(1, 3):          # slow-particle window: 2 m_e b^2 g^2 exp(-b^2) between I and E2
            md = w["mat"][m]
            t = math.exp(md["logI"] + (md["logE2"] - md["logI"]) * rng.unit())     # target 2me b2 g2
            mp = fl(w["part"][p][0])
            energy = mp * (math.sqrt(1 + t / (2 * fl(w["me"]))) - 1)
        _, tmax, b2, _, _ = py_helper(w, m, p, energy, 1e30, 1.0, 1.0)
        mean = max(energy * logu(rng, -4, -0.3), 1.5 * E0)                  # thin ... thick
        if mean >= energy:
            continue
        step = mean / (2.0 * RHO[m] / max(b2, 1e-3) ** 0.8)                 # rough dE/dx (steering)
        cutoff = rng.choice([1e-3, 1e-2, 0.1, 1.0, 10.0])
        if p >= 2 and rng.chance(1, 2):
            # gaussian / gamma regime: T_max <= 2 cutoff and mean >= 10 E_max
            cutoff = tmax * (0.5 + rng.unit())
            mean = min(cutoff, tmax) * logu(rng, 1, 2)
            if mean >= 0.9 * energy or mean < 1.5 * E0:
                continue
            step = mean / (2.0 * RHO[m] / max(b2, 1e-3) ** 0.8)
            mod, _, _, _, bohr = py_helper(w, m, p, energy, cutoff, mean, step)
            if mod == "gaussian" and rng.chance(1, 2):
                step *= mean * mean / (4 * bohr) * (1.2 + 3 * rng.unit())   # thick: mean < 2 sigma_Bohr
        ok = False
        for _ in range(8):
            mod, emax, b2, tm, bohr = py_helper(w, m, p, energy, cutoff, mean, step)
            if mod == "urban":
                ok = tail_ok(urban_branch(w["mat"][m], mean, emax, tm, b2)[1][2], emax, n)
            elif mod == "gamma":
                ok = n * mean * mean / bohr >= 2000         # shape k: skewness 2/sqrt(k)
            else:
                ok = True
            if ok or mod != "urban":
                break
            cutoff = max(cutoff / 10, 2 * E0)
        if not ok:
            skipped += 1
            continue
        words = helper_words(w, m, p, energy, cutoff, mean, step) + w["mat"][m]["matdata"]
        tg = ["helper:" + mod, PARTICLES[p], MATERIALS[m]]
        if mod == "urban":
            tg += urban_branch(w["mat"][m], mean, emax, tm, b2)[0]
        cases.append({"op": "eloss", "words": words, "mean": mean, "model": mod, "bohr": bohr,
                      "tags": tg, "desc": "%s in %s E=%.4g MeV step=%.3g cm cut=%.3g mean=%.4g (%s)" % (
                          PARTICLES[p], MATERIALS[m], energy, step, cutoff, mean, mod)})
        k += 1
    want = ["no-exc(Emax<=I)", "no-exc(w<=w0)", "slow-window", "two-level", "both-levels-gauss",
            "one-level-gauss", "exc-poisson", "ion-fast", "ion-poisson"]
    tries = k = 0
    while k < n_urban and tries < 200000:
        tries += 1
        m, mean, emax, tm, b2 = gen_urban_params(rng, w)
        if m == 4:
            continue
        emax = min(emax, 1.0)
        tg, xs = urban_branch(w["mat"][m], mean, emax, tm, b2)
        if want[k % len(want)] not in tg or max(xs) > 3e4 or not tail_ok(xs[2], emax, n):
            continue
        md = w["mat"][m]
        words = ["%x" % m] + md["matdata"] + [hx(v) for v in (mean, emax, tm, b2)]
        cases.append({"op": "urban", "words": words, "mean": mean, "model": "urban", "bohr": 0.0,
                      "tags": ["direct", MATERIALS[m]] + tg,
                      "desc": "Urban %s mean=%.4g Emax=%.4g 2mb2g2=%.4g b2=%.3g %s" % (
                          MATERIALS[m], mean, emax, tm, b2, "+".join(tg))})
        k += 1
    return cases, skipped


def eloss_stat_eval(exe, case, seed, n):
    _, o = vlib.run_lines([exe], ["stat %x %x %s %s" % (seed, n, case["op"], " ".join(case["words"]))])
    t = o[0].split()
    if case["op"] == "eloss":
        t = t[1:]
    cnt, mean, var, m4 = int(t[0]), fl(t[1]), fl(t[2]), fl(t[3])
    mu = case["mean"]
    se = math.sqrt(var / cnt) if var > 0 else 0.0
    z = (mean - mu) / se if se > 0 else (0.0 if mean == mu else float("inf"))
    out = {"n": cnt, "mean": mean, "z_mean": z, "rel": (mean - mu) / mu, "min": fl(t[4]), "max": fl(t[5])}
    if case["model"] in ("gamma", "gaussian") and case["bohr"] > 0:
        target = case["bohr"]
        if case["model"] == "gaussian":            # variance of the normal truncated to mean +- mean
            c = mu / math.sqrt(target)
            pdf = math.exp(-0.5 * c * c) / math.sqrt(2 * math.pi)
            target *= 1 - 2 * c * pdf / (2 * phi(c) - 1)
        sev = math.sqrt(max(m4 - var * var, 0.0) / cnt)
        out["z_var"] = (var - target) / sev if sev > 0 else 0.0
        out["rel_var"] = (var - target) / target
    return out


def eloss_stat_oracle(ctx, exe, w, n_helper, n_urban, n, k=5.0):
    """TEST: sample mean of every fluctuation model equals the requested mean loss within
    k standard errors (and, for the gamma / gaussian models, the variance equals the Bohr
    variance resp. its truncated value); a rejection is re-tested on three fresh seeds"""
    cases, skipped = gen_eloss_stat_cases(ctx.rng, w, n_helper, n_urban, n)
    base = ctx.seed * 7919 + 101
    summary, cover, total, worst = [], {}, 0, 0.0
    for ci, case in enumerate(cases):
        for t in case["tags"]:
            cover[t] = cover.get(t, 0) + 1
        r = eloss_stat_eval(exe, case, base + ci, n)
        total += r["n"]

        def bad(r):
            if r["min"] < 0 or not math.isfinite(r["max"]):
                return True
            if abs(r["z_mean"]) > k and abs(r["rel"]) > 2e-3:
                return True
            return "z_var" in r and abs(r["z_var"]) > k and abs(r["rel_var"]) > 1e-2
        worst = max(worst, abs(r["z_mean"]) if abs(r["rel"]) > 2e-3 else 0.0)
        if bad(r):
            again = [eloss_stat_eval(exe, case, base + 104729 * (j + 1) + ci, n) for j in range(3)]
            total += sum(a["n"] for a in again)
            summary.append({"case": case["desc"], "first": r, "confirm": again})
            if all(bad(a) for a in again):
                key = "stat:eloss-mean:" + case["model"] + ":" + "+".join(
                    t for t in case["tags"] if t in ("no-exc(Emax<=I)", "no-exc(w<=w0)", "slow-window",
                                                     "two-level", "both-levels-gauss"))
                ctx.violation(key, "statistical test: energy-loss fluctuation sampler does not "
                              f"reproduce the requested mean loss / variance: {case['desc']}: sample mean "
                              f"{r['mean']:.6g} vs {case['mean']:.6g} (z={r['z_mean']:.1f}, "
                              f"{100 * r['rel']:.2f}%), confirmed on 3 seeds",
                              {"harness": "harness/eloss.cc",
                               "op": "stat %x %x %s %s" % (base + ci, n, case["op"], " ".join(case["words"])),
                               "expected_mean": case["mean"], "first": r, "confirm": again,
                               "theorem": "Props/C15.lean urban_mean_identity"})
    return {"cases": len(cases), "skipped_heavy_tail": skipped, "samples": total, "branch_cover": dict(sorted(cover.items())),
            "rejected_then_retested": summary, "max_abs_z_mean": worst}, total


# --------------------------------------------------------------------------- impl-side oracle
BOUNDARY = {}      # samples that attain / pass the open end of a half-open support by rounding


def parse_line(line):
    w = line.split()
    bar = w.index("|")
    return w[0], w[1:bar], [fl(v) for v in w[bar + 1:]]


def oracle_one(line, out):
    """support membership of the REAL code's answer.  Returns None or (key, text)."""
    if "|" not in line.split() or out in ("bad-op", "script-exhausted"):
        return None
    op, pw, s = parse_line(line)
    ow = out.split()
    draws = int(ow[-1])
    vals = ow[:-1]
    used = s[:draws]

    def nonfinite(v):
        return math.isnan(v) or math.isinf(v)

    def log0():
        return any(u == 0.0 for u in used)

    if op == "exp":
        x = fl(vals[0])
        if nonfinite(x) and log0():
            return ("exponential-u0-inf", "ExponentialDistribution returns %r for u = 0 (log(0)); "
                    "documented support is x >= 0 (finite)" % x)
        if not (x >= 0) or nonfinite(x):
            return ("oracle:exp:support", "sample %r not in [0, inf)" % x)
    elif op in ("normal", "normop", "gamma", "elgamma", "elgauss", "elgaussv"):
        xs = [fl(v) for v in vals]
        if any(nonfinite(x) for x in xs):
            if log0():
                return ("normal-u0-nonfinite", "NormalDistribution (Box-Muller, sqrt(-2 log u)) gives a "
                        "non-finite deviate for u = 0; %s returns %r" % (op, xs))
            if op == "gamma" and fl(pw[0]) < 1e-3:
                return None       # 1/alpha overflow of the exponent at extreme shape: parameter range
            return ("oracle:%s:nonfinite" % op, "non-finite sample %r without a zero uniform" % xs)
        if op in ("gamma", "elgamma") and any(x < 0 for x in xs):
            return ("oracle:%s:support" % op, "negative gamma sample %r" % xs)
        if op in ("elgauss", "elgaussv"):
            mean = fl(pw[0])
            if not (0 < xs[0] <= 2 * mean):
                return ("oracle:elgauss:support", "loss %r not in (0, 2*mean]" % xs[0])
    elif op == "poisson":
        lam = fl(pw[0])
        for v in vals:
            k = int(v)
            if lam > 16 and lam < 1e9 and k >= 2 ** 31:
                return ("poisson-gaussian-negative", "PoissonDistribution(lambda=%r) Gaussian branch "
                        "returns %d (negative normal sample cast to unsigned)" % (lam, k))
            if lam <= 16 and k != draws - 1 and len(vals) == 1:
                return ("oracle:poisson:draws", "direct method: k=%d draws=%d" % (k, draws))
        if 16 < lam < 1e9 and len(vals) == 1 and draws == 2 and used[1] > 0.0:
            # independent evaluation: count = normal sample rounded to nearest, clamped at 0
            z = math.sqrt(-2 * math.log(used[1])) * math.sin(2 * math.pi * used[0])
            x = lam + math.sqrt(lam) * z + 0.5
            want = math.floor(x) if x > 0 else 0
            if abs(int(vals[0]) - want) > 1:
                return ("oracle:poisson:gauss-value", "Gaussian branch lambda=%r returned %s, "
                        "independent evaluation gives %d" % (lam, vals[0], want))
    elif op in ("uniform", "recip", "invsq", "recip1"):
        x = fl(vals[0])
        a, b = (1.0, fl(pw[0])) if op == "recip1" else (fl(pw[0]), fl(pw[1]))
        lo, hi = min(a, b), max(a, b)
        tol = 0.0 if op == "uniform" else 4e-16 * hi      # exp/log/div rounding at the closed ends
        if not (lo - tol <= x <= hi + tol):
            return ("oracle:%s:support" % op, "sample %r outside [%r, %r]" % (x, lo, hi))
        if lo < hi and (x >= b if a < b else x <= b):
            BOUNDARY[op + ":open-end-attained"] = BOUNDARY.get(op + ":open-end-attained", 0) + 1
    elif op == "radial":
        x, r = fl(vals[0]), fl(pw[0])
        # glibc cbrt(1 - 2^-52) = 1 + 2^-52: the radius can be exceeded by an ulp or two (rounding)
        if not (0 <= x <= r * (1 + 4e-16)):
            return ("oracle:radial:support", "sample %r outside [0, %r]" % (x, r))
        if x >= r:
            BOUNDARY["radial>=R"] = BOUNDARY.get("radial>=R", 0) + 1
    elif op == "iso":
        v = [fl(t) for t in vals]
        n2 = v[0] * v[0] + v[1] * v[1] + v[2] * v[2]
        if not abs(n2 - 1) <= 1e-14:
            return ("oracle:iso:unit", "|v|^2 - 1 = %r" % (n2 - 1))
    elif op == "box":
        v = [fl(t) for t in vals]
        p = [fl(t) for t in pw]
        for i in range(3):
            if not (p[i] <= v[i] <= p[i + 3]):
                return ("oracle:box:support", "coordinate %d = %r outside [%r, %r]" % (i, v[i], p[i], p[i + 3]))
    elif op in ("bern", "bern2"):
        if vals[0] not in ("0", "1"):
            return ("oracle:bern:value", "not a bool: " + vals[0])
        pt = fl(pw[0]) if op == "bern" else fl(pw[0]) / (fl(pw[0]) + fl(pw[1]))
        if (vals[0] == "1") != (used[0] < pt):
            return ("oracle:bern:threshold", "u=%r p=%r gives %s" % (used[0], pt, vals[0]))
    elif op == "select":
        n, i = len(pw) - 1, int(vals[0])
        if not (0 <= i < n):
            return ("oracle:select:index", "index %d not < size %d" % (i, n))
        w = [fl(t) for t in pw[1:]]
        if w[i] == 0.0 and i != n - 1:
            return ("oracle:select:zero-weight", "selected index %d has zero weight" % i)
    elif op in ("reject", "reject1"):
        if vals[0] not in (hx(0.0), hx(1.0)):
            return ("oracle:reject:value", "not 0/1: " + vals[0])
    elif op == "rejloop":
        kind = int(pw[0], 16)
        a, b, fm = fl(pw[1]), fl(pw[2]), fl(pw[3])
        x = fl(vals[0])
        fx = x if kind == 0 else x * x if kind == 1 else 4 * x * (1 - x)
        if not (a <= x <= b) or fx < fm * used[-1]:
            return ("oracle:rejloop:accept", "accepted x=%r f=%r above target fmax*u=%r" % (x, fx, fm * used[-1]))
    elif op == "tsai":
        x = fl(vals[0])
        if not (-1 <= x <= 1):
            return ("oracle:tsai:support", "cos(theta) = %r outside [-1, 1]" % x)
        if draws % 3:
            return ("oracle:tsai:draws", "draw count %d not a multiple of 3" % draws)
    return None


# --------------------------------------------------------------------------- statistics (TEST)
def gammainc_p(a, x):
    """regularised lower incomplete gamma P(a, x) (series / continued fraction)"""
    if x <= 0:
        return 0.0
    gl = math.lgamma(a)
    if x < a + 1:
        ap, s, d = a, 1.0 / a, 1.0 / a
        for _ in range(10000):
            ap += 1
            d *= x / ap
            s += d
            if abs(d) < abs(s) * 1e-16:
                break
        return min(1.0, s * math.exp(-x + a * math.log(x) - gl))
    b = x + 1 - a
    c = 1e300
    d = 1.0 / b
    h = d
    for i in range(1, 10000):
        an = -i * (i - a)
        b += 2
        d = an * d + b
        d = 1e-300 if abs(d) < 1e-300 else d
        c = b + an / c
        c = 1e-300 if abs(c) < 1e-300 else c
        d = 1.0 / d
        de = d * c
        h *= de
        if abs(de - 1) < 1e-16:
            break
    return max(0.0, 1.0 - math.exp(-x + a * math.log(x) - gl) * h)


def phi(z):
    return 0.5 * math.erfc(-z / math.sqrt(2.0))


def ks_pvalue(xs, cdf):
    n = len(xs)
    xs = sorted(xs)
    d = 0.0
    for i, x in enumerate(xs):
        f = cdf(x)
        d = max(d, f - i / n, (i + 1) / n - f)
    lam = (math.sqrt(n) + 0.12 + 0.11 / math.sqrt(n)) * d
    if lam < 0.3:
        return 1.0, d
    s = 0.0
    for j in range(1, 101):
        t = 2 * (-1) ** (j - 1) * math.exp(-2 * j * j * lam * lam)
        s += t
        if abs(t) < 1e-18:
            break
    return max(0.0, min(1.0, s)), d


def chi2_pvalue(obs, exp):
    """bins with expectation < 5 are pooled"""
    o2, e2, po, pe = [], [], 0.0, 0.0
    for o, e in zip(obs, exp):
        po += o
        pe += e
        if pe >= 5:
            o2.append(po)
            e2.append(pe)
            po = pe = 0.0
    if pe > 0 and e2:
        o2[-1] += po
        e2[-1] += pe
    if len(e2) < 2:
        return 1.0, 0.0
    c = sum((o - e) ** 2 / e for o, e in zip(o2, e2))
    return 1.0 - gammainc_p((len(e2) - 1) / 2.0, c / 2.0), c


def stat_cases():
    """(name, op, params(list of float | int hex words), kind, reference)"""
    cs = []

    def add(name, op, p, kind, ref, ints=()):
        cs.append((name, op, [hx(v) for v in p] + ["%x" % i for i in ints], kind, ref))
    for a, b in ((0.0, 1.0), (-3.0, 7.5)):
        add("uniform(%g,%g)" % (a, b), "uniform", [a, b], "ks", lambda x, a=a, b=b: (x - a) / (b - a))
    for lam in (0.25, 1.0, 40.0):
        add("exp(%g)" % lam, "exp", [lam], "ks", lambda x, l=lam: 1 - math.exp(-l * x))
    for m, s in ((0.0, 1.0), (5.0, 0.01)):
        add("normal(%g,%g)" % (m, s), "normal", [m, s], "ks", lambda x, m=m, s=s: phi((x - m) / s))
    for al, be in ((0.2, 1.0), (0.9, 2.0), (1.0, 1.0), (2.5, 0.5), (30.0, 1.0)):
        add("gamma(%g,%g)" % (al, be), "gamma", [al, be], "ks",
            lambda x, al=al, be=be: gammainc_p(al, x / be))
    for lam in (0.1, 3.0, 15.9, 16.0):
        add("poisson(%g)" % lam, "poisson", [lam], "pmf",
            lambda k, l=lam: math.exp(-l + k * math.log(l) - math.lgamma(k + 1)))
    for lam in (50.0, 400.0):
        # documented Gaussian approximation: k = trunc(N(l, sqrt l) + 0.5)
        def pm(k, l=lam):
            lo = -1.5 if k == 0 else k - 0.5
            return phi((k + 0.5 - l) / math.sqrt(l)) - phi((lo - l) / math.sqrt(l))
        add("poisson-gauss(%g)" % lam, "poisson", [lam], "pmf", pm)
    for a, b in ((1e-3, 10.0), (5.0, 0.5)):
        add("recip(%g,%g)" % (a, b), "recip", [a, b], "ks",
            lambda x, lo=min(a, b), hi=max(a, b): math.log(x / lo) / math.log(hi / lo))
    add("invsq(0.5,20)", "invsq", [0.5, 20.0], "ks", lambda x: 20.0 * (x - 0.5) / (x * 19.5))
    add("radial(3)", "radial", [3.0], "ks", lambda x: (x / 3.0) ** 3)
    add("iso", "iso", [], "iso", None)
    add("box", "box", [-1.0, 0.0, 2.0, 1.0, 5.0, 2.5], "box", [-1.0, 0.0, 2.0, 1.0, 5.0, 2.5])
    for pr in (0.3, 1.0 / 36):
        add("bern(%g)" % pr, "bern", [pr], "pmf", lambda k, pr=pr: pr if k == 1 else 1 - pr if k == 0 else 0.0)
    w = [0.1, 0.0, 0.35, 0.05, 0.5]
    add("select", "select", [1.0] + w, "pmf", lambda k, w=w: w[k] if k < len(w) else 0.0)
    for kind, cdf in ((0, lambda x: x * x), (1, lambda x: x ** 3), (2, lambda x: 3 * x * x - 2 * x ** 3)):
        cs.append(("rejloop(kind %d)" % kind, "rejloop", ["%x" % kind, hx(0.0), hx(1.0), hx(1.0)], "ks", cdf))
    for e, m in ((0.1, 0.51099894609999996), (10.0, 0.51099894609999996), (1000.0, 0.51099894609999996)):
        umax = 2 * (1 + e / m)

        def g2(t):
            return 1 - (1 + t) * math.exp(-t)

        def cdf(c, umax=umax):
            # cos = 1 - 2 (u/umax)^2 decreasing in u;  u = s*G, G ~ Gamma(2,1), s = 1.6 (1/4) or 1.6/3 (3/4)
            u = umax * math.sqrt(max(0.0, (1 - c) / 2))
            def F(t):
                return 0.25 * g2(t / 1.6) + 0.75 * g2(t / (1.6 / 3))
            return 1 - F(u) / F(umax)
        add("tsai(%g)" % e, "tsai", [e, m], "ks", cdf)
    for mean, var in ((1.0, 0.5), (0.01, 1e-3)):
        k = mean * mean / var
        add("elgamma(%g,%g)" % (mean, var), "elgamma", [mean, var], "ks",
            lambda x, k=k, th=mean / k: gammainc_p(k, x / th))
    for mean, sd in ((1.0, 0.3), (1.0, 2.0)):
        lo, hi = phi((0 - mean) / sd), phi((2 * mean - mean) / sd)
        add("elgauss(%g,%g)" % (mean, sd), "elgauss", [mean, sd], "ks",
            lambda x, m=mean, s=sd, lo=lo, hi=hi: (phi((x - m) / s) - lo) / (hi - lo))
    return cs


def stat_pvalues(exe, case, seed, n):
    name, op, pw, kind, ref = case
    line = "stat %x %x %s %s" % (seed, n, op, " ".join(pw))
    _, out = vlib.run_lines([exe], [line])
    toks = out[0].split() if out else []
    if kind == "ks":
        xs = [fl(t) for t in toks]
        return [ks_pvalue(xs, ref)[0]], len(xs)
    if kind == "pmf":
        ks = [int(t) for t in toks]
        kmax = max(ks) if ks else 0
        if kmax > 10 ** 7:
            return [0.0], len(ks)          # wrapped value: certainly not the target distribution
        obs = [0] * (kmax + 1)
        for k in ks:
            obs[k] += 1
        exp = [len(ks) * ref(k) for k in range(kmax + 1)]
        rest = len(ks) - sum(exp)
        exp.append(max(rest, 0.0))
        obs.append(0)
        return [chi2_pvalue(obs, exp)[0]], len(ks)
    v = [fl(t) for t in toks]
    pts = [v[i:i + 3] for i in range(0, len(v), 3)]
    if kind == "iso":
        pz = ks_pvalue([p[2] for p in pts], lambda z: (z + 1) / 2)[0]
        pp = ks_pvalue([math.atan2(p[1], p[0]) % (2 * math.pi) for p in pts],
                       lambda a: a / (2 * math.pi))[0]
        return [pz, pp], len(pts)
    b = ref
    return [ks_pvalue([p[i] for p in pts], lambda x, i=i: (x - b[i]) / (b[i + 3] - b[i]))[0]
            for i in range(3)], len(pts)


def stat_oracle(ctx, exe, n, alpha=1e-4):
    """goodness of fit with the REAL XorwowRngEngine; a rejection at level alpha is re-tested on
    three fresh seeds and reported only if all three reject as well.  This is a TEST."""
    results, total = {}, 0
    base = ctx.seed * 1000 + 17
    for ci, case in enumerate(stat_cases()):
        ps, cnt = stat_pvalues(exe, case, base + ci, n)
        total += cnt
        results[case[0]] = min(ps)
        if min(ps) < alpha:
            again = [min(stat_pvalues(exe, case, base + 7919 * (j + 1) + ci, n)[0]) for j in range(3)]
            total += 3 * cnt
            results[case[0] + " (confirm)"] = again
            if all(p < alpha for p in again):
                ctx.violation("stat:" + case[1] + ":" + case[0],
                              f"statistical test: {case[0]} sampled with XorwowRngEngine does not match "
                              f"its analytic distribution (p={min(ps):.3g}; confirmation p={again})",
                              {"harness": "harness/dist.cc", "op": "stat %x %x %s %s" % (
                                  base + ci, n, case[1], " ".join(case[2])),
                               "p_values": [min(ps)] + again, "alpha": alpha, "n": n})
    return results, total


# --------------------------------------------------------------------------- run
FINDING_TEXT = {
    "poisson-gaussian-negative": "Props/C15.lean poisson_gauss_support / poisson_gauss_lower_tail",
    "exponential-u0-inf": "Props/C15.lean exponential_support needs 0 < u",
    "normal-u0-nonfinite": "Props/C15.lean normal_draws / gamma_support need 0 < u2",
}


def eloss_oracle(line, out):
    """impl-side predicate for the energy-loss ops: finite non-negative loss; `none` returns the mean"""
    w = line.split()
    if w[0] not in ("urban", "eloss") or out in ("bad-op", "bad-data", "script-exhausted"):
        return ("oracle:eloss:bad-data", "harness rejected the op data: " + out) if out == "bad-data" else None
    bar = w.index("|")
    sc = [fl(v) for v in w[bar + 1:]]
    ow = out.split()
    loss, draws = fl(ow[-2]), int(ow[-1])
    if math.isnan(loss) or math.isinf(loss):
        if any(u == 0.0 for u in sc[:draws]):
            return ("normal-u0-nonfinite", "energy-loss sampler returns %r after a uniform equal to 0 "
                    "reached log() in NormalDistribution" % loss)
        return ("oracle:eloss:nonfinite", "non-finite energy loss %r" % loss)
    if loss < 0:
        return ("oracle:eloss:negative", "negative energy loss %r" % loss)
    if w[0] == "eloss" and ow[0] == "0" and (draws != 0 or hx(loss) != w[11]):
        return ("oracle:eloss:none", "model none must return the mean loss without draws: " + out)
    return None


def eloss_part(ctx, ps, broken, quick):
    """energy-loss fluctuation models: exact diff, impl-side oracle, statistical mean test"""
    exe, log, _ = vlib.build_harness("eloss", HARNESS["eloss"])
    if exe is None:
        ctx.violation("harness-build", "harness/eloss.cc no longer builds against /repo",
                      {"correspondence": "harness build", "log": log[-2000:]}, found_input=False)
        return {"evaluations": 0, "distinct": 0, "coverage": {"harness": "build failed"}}
    w = eloss_world(exe)
    lines, tags = gen_eloss_lines(ctx.rng, w, 25000 if quick else 250000)
    _, oh = vlib.run_lines([exe], lines)
    diverged = []
    if ps["model_ok"]:
        _, om = vlib.run_lines([vlib.model_exe("C15")], lines)
        for i, l in enumerate(lines):
            a = oh[i] if i < len(oh) else "<missing>"
            b = om[i] if i < len(om) else "<missing>"
            if not nan_tolerant_equal(a, b):
                diverged.append({"op": l, "impl": a, "model": b, "branch": tags[i]})
    if diverged:
        broken.append(f"correspondence (energy-loss models): model and implementation differ on "
                      f"{len(diverged)} ops (first: {diverged[0]['op'][:60]} ... {diverged[0]['branch']})")
        by_tag = {}
        for d in diverged:
            for t in d["branch"]:
                by_tag[t] = by_tag.get(t, 0) + 1
    cover, distinct, seen = {}, set(), {}
    for i, l in enumerate(lines):
        a = oh[i] if i < len(oh) else "<missing>"
        for t in tags[i]:
            cover[t] = cover.get(t, 0) + 1
        if a not in ("bad-op", "bad-data", "script-exhausted", "<missing>"):
            distinct.add(l)
        try:
            r = eloss_oracle(l, a)
        except (ValueError, IndexError) as e:
            r = ("oracle:eloss:unparsable", "cannot interpret harness answer %r (%s)" % (a, e))
        if r and r[0] not in seen:
            seen[r[0]] = (r[1], l, a)
    for key, (text, l, a) in sorted(seen.items()):
        ctx.violation(key, "real energy-loss sampler (ScriptedEngine): " + text,
                      {"harness": "harness/eloss.cc", "op": l, "impl_output": a})
    st, st_n = eloss_stat_oracle(ctx, exe, w, 60 if quick else 400, 36 if quick else 180,
                                 20000 if quick else 100000)
    return {"evaluations": len(lines) + st_n, "distinct": len(distinct),
            "coverage": {"lines": len(lines), "diverging_ops": len(diverged),
                         "first_divergences": diverged[:3], "branch_cover": dict(sorted(cover.items())),
                         "oracle_keys": sorted(seen), "statistical_mean_test": st}}


def ioni_part(ctx, ps, broken, quick):
    """closed-form ionisation samplers: exact diff, support oracle (incl. endpoints), shape test"""
    exes = {}
    for h in ("dist", "eloss"):
        exes[h], log, _ = vlib.build_harness(h, HARNESS[h])
        if exes[h] is None:
            return {"evaluations": 0, "distinct": 0, "coverage": {"harness": "build failed"}}
    w = eloss_world(exes["eloss"])
    (dl, dt), (el, et) = gen_ioni_lines(ctx.rng, w, 20000 if quick else 200000)
    diverged, cover, distinct, seen, n_lines = [], {}, set(), {}, 0
    for h, lines, tags in (("dist", dl, dt), ("eloss", el, et)):
        n_lines += len(lines)
        _, oh = vlib.run_lines([exes[h]], lines)
        om = vlib.run_lines([vlib.model_exe("C15")], lines)[1] if ps["model_ok"] else []
        for i, l in enumerate(lines):
            a = oh[i] if i < len(oh) else "<missing>"
            for t in tags[i]:
                cover[t] = cover.get(t, 0) + 1
            if ps["model_ok"]:
                b = om[i] if i < len(om) else "<missing>"
                if not nan_tolerant_equal(a, b):
                    diverged.append({"op": l, "impl": a, "model": b, "branch": tags[i]})
            if not (a.endswith("script-exhausted") or a in ("bad-op", "bad-data", "<missing>")):
                distinct.add(l)
            try:
                r = ioni_oracle(l, a)
            except (ValueError, IndexError) as e:
                r = ("oracle:ioni:unparsable", "cannot interpret harness answer %r (%s)" % (a, e))
            if r and r[0] not in seen:
                seen[r[0]] = (r[1], l, a, h)
    if diverged:
        broken.append(f"correspondence (ionisation samplers): model and implementation differ on "
                      f"{len(diverged)} ops (first: {diverged[0]['op'][:60]} ... {diverged[0]['branch']})")
    for key, (text, l, a, h) in sorted(seen.items()):
        ctx.violation(key, "real ionisation sampler (ScriptedEngine): " + text,
                      {"harness": "harness/%s.cc" % h, "op": l, "impl_output": a,
                       "theorem": "Props/C15.lean moller_support / bhabha_support / heavyIoni_support"})
    st, st_n = ioni_stat_oracle(ctx, exes, w, 15 if quick else 60, 20000 if quick else 100000)
    return {"evaluations": n_lines + st_n, "distinct": len(distinct),
            "coverage": {"lines": n_lines, "diverging_ops": len(diverged),
                         "first_divergences": diverged[:3], "branch_cover": dict(sorted(cover.items())),
                         "oracle_keys": sorted(seen), "shape_test_min_p": st}}


def normal_copy_ctor_probe(ctx):
    """NormalDistribution's copy CONSTRUCTOR is written `mean_{other.mean}, stddev_{other.stddev}`
    (no such members): it cannot be instantiated, so harness/dist.cc exercises only the move
    constructor and the two assignments.  Recorded as a note (no sample can come out of code that
    does not compile); if it starts compiling, the model must be extended."""
    d = os.path.join(vlib.BUILD, "probe_c15")
    os.makedirs(d, exist_ok=True)
    src = os.path.join(d, "normal_copy.cc")
    with open(src, "w") as f:
        f.write('#include "celeritas/random/distribution/NormalDistribution.hh"\n'
                "int main() { celeritas::NormalDistribution<double> a(1, 2);\n"
                "  celeritas::NormalDistribution<double> b(a); return 0; }\n")
    inc, cxx, _ = vlib.harness_flags(["corecel"])
    rc, out = vlib.sh(["g++"] + cxx + inc + ["-fsyntax-only", src], timeout=300)
    if rc == 0:
        ctx.violation("normal-copy-ctor-now-compiles", "NormalDistribution copy constructor became "
                      "instantiable: extend Model/Dist.lean (Normal.copyCtor) and harness op normop",
                      {"correspondence": "special members of NormalDistribution"}, found_input=False)
    else:
        ctx.notes.append("NormalDistribution(NormalDistribution const&) is ill-formed (other.mean / "
                         "other.stddev do not exist): any code that copy-constructs a NormalDistribution "
                         "does not compile; not a run-time violation")
    return rc == 0


def run(ctx):
    quick = ctx.quick()
    ps = common.proof_side(ctx, "C15")
    broken = list(ps["broken"])
    numself.run(ctx)
    exe, log, _ = vlib.build_harness("dist", HARNESS["dist"])
    if exe is None:
        ctx.violation("harness-build", "harness/dist.cc no longer builds against /repo",
                      {"correspondence": "harness build", "log": log[-2000:]}, found_input=False)
        ctx.coverage.update({"evaluations": 0, "distinct_nontrivial": 0,
                             "explanation": "harness build failed"})
        return LEVEL
    lines = []
    cdir = os.path.join(vlib.CORPUS, "C15")
    if os.path.isdir(cdir):
        for fn in sorted(os.listdir(cdir)):
            if fn.endswith(".ops"):
                lines += [l.rstrip("\n") for l in open(os.path.join(cdir, fn)) if not l.startswith("#")]
    n_corpus = len(lines)
    lines += directed()
    n_directed = len(lines) - n_corpus
    n = 60000 if quick else 600000
    for _ in range(n):
        lines.append(gen_case(ctx.rng)[0])
    _, oh = vlib.run_lines([exe], lines)
    diverged, kinds, distinct, exhausted = [], {}, set(), 0
    if ps["model_ok"]:
        _, om = vlib.run_lines([vlib.model_exe("C15")], lines)
        for i, l in enumerate(lines):
            a = oh[i] if i < len(oh) else "<missing>"
            b = om[i] if i < len(om) else "<missing>"
            if not nan_tolerant_equal(a, b):
                diverged.append({"op": l, "impl": a, "model": b})
    else:
        broken.append("model driver did not build")
    if diverged:
        broken.append(f"correspondence: model and implementation differ on {len(diverged)} ops "
                      f"(first: {diverged[0]['op'][:80]})")
    # default GenerateCanonical (std::generate_canonical): exact reference + range oracle
    sc = stdcanon_lines(ctx.rng, 2000 if quick else 50000)
    _, so = vlib.run_lines([exe], sc)
    sc_bad = [{"op": l, "impl": o, "reference": stdcanon_ref(l)} for l, o in zip(sc, so)
              if o != stdcanon_ref(l)]
    seen = {}
    for l, o in zip(sc, so):
        if o != "script-exhausted" and not (0.0 <= fl(o.split()[0]) < 1.0):
            seen["oracle:stdcanon:range"] = ("default GenerateCanonical returned %r outside [0,1)"
                                             % fl(o.split()[0]), l + " |", o)
    if sc_bad:
        broken.append("correspondence: default GenerateCanonical differs from the reference on "
                      f"{len(sc_bad)} inputs (first {sc_bad[0]})")
    # impl-side oracle on everything the real code answered
    for i, l in enumerate(lines):
        a = oh[i] if i < len(oh) else "<missing>"
        k = (l.split() or ["empty"])[0]
        kinds[k] = kinds.get(k, 0) + 1
        if a == "script-exhausted":
            exhausted += 1
        elif a != "bad-op":
            distinct.add(l)
        try:
            r = oracle_one(l, a)
        except (ValueError, IndexError) as e:
            r = ("oracle:unparsable", "cannot interpret harness answer %r (%s)" % (a, e))
        if r and r[0] not in seen:
            seen[r[0]] = (r[1], l, a)
    for key, (text, l, a) in sorted(seen.items()):
        op, pw, s = parse_line(l)
        ctx.violation(key, "real sampler (ScriptedEngine): " + text,
                      {"harness": "harness/dist.cc", "op": l, "impl_output": a,
                       "params": [fl(w) if len(w) == 16 else w for w in pw], "script": s,
                       "theorem": FINDING_TEXT.get(key, "Props/C15.lean *_support")})
    st_results, st_n = stat_oracle(ctx, exe, 40000 if quick else 250000)
    ctx.coverage["normal_copy_constructor_instantiable"] = normal_copy_ctor_probe(ctx)
    el = eloss_part(ctx, ps, broken, quick)
    io = ioni_part(ctx, ps, broken, quick)
    if broken and not ctx.violations:
        ctx.violation("unproved", "; ".join(broken)[:600],
                      {"no_longer_checks": broken, "diverging_ops": diverged[:3]}, found_input=False)
    if not quick and ps["build"]["ok"]:
        common.leanchecker(ctx, ["CelerVerif.Props.C15"])
    ctx.assumptions += [
        "theorems are about the real-number reading of Model/Dist.lean for canonical uniforms in [0,1) "
        "(in (0,1) where a theorem says so); the same definitions executed at Float equal the C++ "
        "results (sample and draw count) bit-for-bit on every op compared in this run",
        "the generator is used only through generate_canonical (checked by reading; a sampler calling "
        "rng() directly would throw in the ScriptedEngine harness)",
        "floating-point rounding is not modelled: at Float a half-open bound [a,b) may be attained "
        "(e.g. UniformRealDistribution(1,2) returns 2.0 for u = 1-2^-53); the oracle uses closed bounds",
        "parameter ranges of the differential run avoid intermediate overflow (|a|,|b| <= 1e100, "
        "ratios <= 1e20); documented preconditions (CELER_EXPECT) are respected by the generators",
        "static_cast<unsigned>(negative double) is undefined in C++; the model reproduces what the "
        "x86-64 release binary does (cvttsd2si, low 32 bits)",
        "energy-loss models: material / particle data are inputs of the model; the harness checks "
        "on every op that they are bit-identical to the real MaterialParams / ParticleParams / "
        "FluctuationParams data (C, Ar gas, Cu, Pb, liquid Ar; e-, e+, mu-, mu+, p); evaluation order "
        "of `sample_excitation_loss(rng) + sample_ionization_loss(rng)` is the compiled one",
        "the statistical mean / variance test of the energy-loss samplers skips nothing but is only "
        "generated where the standard error is meaningful (top decade of the 1/E^2 spectrum populated, "
        "gamma shape k with n*k >= 2000)",
        "the default GenerateCanonical (std::generate_canonical of libstdc++, used only with engines "
        "other than XorwowRngEngine) is not modelled in Lean: compared with an exact reference and "
        "range-checked on the real code; the Xorwow specialisation is C13's subject",
        "WentzelDistribution and SBEnergyDistribution (table / Mott-coefficient driven) are not "
        "modelled in Lean; the radiative-correction branch of MuBB and the positivity of the Bhabha "
        "rejection function are checked by the impl-side oracle, not proved",
        "goodness of fit (KS / chi-square at 1e-4, confirmed on 3 seeds) is a statistical test with "
        "the real XorwowRngEngine, not a proof",
    ]
    ctx.coverage.update({
        "evaluations": len(lines) + len(sc) + st_n + el["evaluations"] + io["evaluations"],
        "distinct_nontrivial": len(distinct) + el["distinct"] + io["distinct"],
        "eloss": el["coverage"], "ionisation": io["coverage"],
        "stdcanon_lines": len(sc), "stdcanon_mismatches": len(sc_bad),
        "rule": "op lines = distribution + parameters (log-uniform over wide ranges, special values, "
                "branch thresholds) + script of canonical uniforms (53-bit grid values, extremes 0, "
                "2^-53, 1-2^-53, 0.5, tiny values; also too-short scripts); non-trivial = answered with "
                "a sample (not bad-op / script-exhausted); distinct = distinct op lines",
        "op_mix": dict(sorted(kinds.items())), "script_exhausted": exhausted,
        "corpus_lines": n_corpus, "directed_lines": n_directed,
        "diverging_ops": len(diverged), "oracle_keys": sorted(seen),
        "open_end_attained_by_rounding": dict(sorted(BOUNDARY.items())),
        "statistical_test_min_p": st_results, "statistical_samples": st_n,
        "samples": [lines[n_corpus + n_directed], lines[n_corpus + n_directed + 1], lines[-1]],
        "correspondence_broken": broken,
        "explanation": "support / inverse-CDF / unit-norm / valid-index / draw-count / first-accept "
                       "theorems are proved at ℝ on a model tied bit-exactly to the code; NOT proved: "
                       "floating-point rounding, the target distribution of the rejection-based samplers "
                       "(normal, gamma, Poisson, Tsai-Urban: statistical test only), the sampled mean and "
                       "variance of the energy-loss models as probabilistic statements (statistical test; "
                       "what is proved is the algebraic mean identity of the constructor and of the "
                       "fast-simulation splits)",
    })
    return LEVEL


def replay(ctx, data):
    r = data["replay"]
    hname = "eloss" if r.get("harness", "").endswith("eloss.cc") else "dist"
    exe, log, _ = vlib.build_harness(hname, HARNESS[hname])
    if "op" in r:
        _, o = vlib.run_lines([exe], [r["op"]])
        print("op:", r["op"])
        print("impl now:", o, " recorded:", r.get("impl_output"))
        if not r["op"].startswith("stat") and os.path.exists(vlib.model_exe("C15")):
            _, m = vlib.run_lines([vlib.model_exe("C15")], [r["op"]])
            print("model  :", m)
    else:
        print(vlib.json.dumps(r, indent=1))
    return 0
