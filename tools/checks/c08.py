"""C08 — Field propagation follows the field and stays consistent with the geometry."""
import math
import struct

import vlib
from checks import common, numself

LEVEL = "other"
HARNESS = {"fieldprop": ["corecel", "geocel", "orange", "celeritas"], "numself": ["corecel"]}
MANIFEST = {
    "category": "other",
    "technique": "Lean 4 proof about an executable model of FieldPropagator::operator() / FieldDriver "
                 "(termination bound, distance range, boundary flag, looping flag, momentum, ZHelix "
                 "closed form at ℝ) + recorded-oracle correspondence: the real FieldPropagator<"
                 "RecordingDriver<FieldDriver<RecordingStepper>>, RecordingGeo> runs on real ORANGE "
                 "geometries, the model replays the recorded driver/stepper/geometry answers and "
                 "must reproduce every call, argument and result bit-for-bit; callee contracts "
                 "assumed by the theorems are asserted on every recorded answer",
    "findings": "driver-max-nsteps-exhausted (FieldDriver keeps going after find_next_chord / "
                "one_good_step ran out of max_nsteps: returned arc LONGER than the reported step; the "
                "opposite direction has its own key driver-step-exceeds-integrated-arc); "
                "helix-gyroradius-below-minimum-step (integration steps floored at minimum_step); "
                "zhelix-off-axis, zhelix-negative-helicity-z, "
                "zhelix-diry-zero (ZHelixStepper exact only for a helix about the z axis through the "
                "origin with its 'positive helicity')",
    "text": "Model/FieldProp.lean models the propagation loop (chord, update_length, four branches, "
            "loop condition, looping flag, tail) over recorded driver and geometry answers, the "
            "FieldDriver control flow over an abstract stepper, FieldDriverOptions validation and the "
            "ZHelixStepper closed form, generic in the number type. Proved at ℝ under the stated "
            "driver/geometry contracts: explicit iteration bound, 0 < distance <= step, boundary "
            "flag <=> last geometry move is move_to_boundary, looping <=> substep budget spent short "
            "of the step (looping => distance < step; budget spent and not looping => distance = "
            "step), |p| unchanged and final direction = unit(momentum), driver substep in "
            "(0, step], ZHelix end point on the analytic helix (with the hypotheses the code needs). "
            "Run at Float against the real templates through recording wrappers.",
    "design_ref": "DESIGN.md §6 C08",
    "note": "NOT proved: RK4 / Dormand-Prince truncation error versus delta_chord / epsilon_rel_max "
            "(numerical analysis; carried by the helix-residual oracle only); floating-point "
            "rounding of the ℝ-level theorems; the geometry contract is asserted on recorded "
            "ORANGE answers, not proved (C03).",
}

TESLA = 1.0e4                    # gauss
C_R = 2.99792458                 # R[cm] = p[MeV/c] / (C_R * |q| * B[T])
PARTICLES = {"e-": (0.5109989461, -1), "e+": (0.5109989461, 1), "mu-": (105.6583745, -1),
             "mu+": (105.6583745, 1), "p": (938.27208816, 1), "pbar": (938.27208816, -1),
             "alpha": (3727.379, 2)}
# name -> (half extents of the region where start points are drawn, centre, length scale)
GEOS = {
    "two-boxes": ((6, 6, 6), (0, 0, 0), 5.0),
    "field-layers": ((10, 20, 10), (0, 0, 0), 2.0),
    "simple-cms": ((720, 720, 1450), (0, 0, 0), 100.0),
    "three-spheres": ((12, 12, 12), (0, 0, 0), 3.0),
    "testem3-flat": ((22, 20, 20), (0, 0, 0), 0.5),
    "five-volumes": ((1.5, 1.5, 0.5), (0, 0, 0), 0.5),
    "universes": ((5, 5, 1.5), (3, -1, 0.5), 1.0),
    "rect-array": ((12, 7, 5), (0, 3, 0), 2.0),
    "nested-rect-arrays": ((10, 10, 10), (0, 0, 0), 2.0),
    "hex-array": ((10, 10, 20), (0, 0, 0), 2.0),
    "inputbuilder-hierarchy": ((12, 12, 12), (0, 0, 0), 2.0),
    "testem3": ((22, 20, 20), (0, 0, 0), 0.5),
    "inputbuilder-universes": ((5, 5, 1.5), (3, -1, 0.5), 1.0),
    "one-steel-sphere": ((8, 8, 8), (0, 0, 0), 5.0),
}
DEFAULT_OPTS = [1e-5 * 0.1, 0.25 * 0.1, 1e-4 * 0.1, 1e-5, 1e-3, 1e-4, -0.2, -0.25, 0.9, 5.0, 0.1, 100, 10]
DCHORD_TOL = 1e-5 * 0.1


def hx(x):
    return "%016x" % struct.unpack("<Q", struct.pack("<d", float(x)))[0]


def fl(s):
    return struct.unpack("<d", struct.pack("<Q", int(s, 16)))[0]


def v3(v):
    return ",".join(hx(c) for c in v)


def opts_str(o, sep=","):
    return sep.join([hx(c) for c in o[:11]] + ["%d" % o[11], "%d" % o[12]])


def norm(v):
    return math.sqrt(sum(c * c for c in v))


def unit(v):
    n = norm(v) or 1.0
    return [c / n for c in v]


def rnd_dir(rng):
    k = rng.below(8)
    if k == 0:
        v = [0.0, 0.0, 0.0]
        v[rng.below(3)] = rng.choice([1.0, -1.0])
        return v
    if k == 1:      # nearly axis parallel
        v = [(rng.unit() - 0.5) * 10 ** -rng.range(3, 9) for _ in range(3)]
        v[rng.below(3)] = rng.choice([1.0, -1.0])
        return unit(v)
    if k == 2:      # in the x-y plane (perpendicular to a z field)
        a = rng.unit() * 2 * math.pi
        return [math.cos(a), math.sin(a), 0.0]
    return unit([rng.unit() * 2 - 1 for _ in range(3)])


def log_uniform(rng, lo, hi):
    return math.exp(math.log(lo) + rng.unit() * (math.log(hi) - math.log(lo)))


def momentum_of(par, e):
    m = PARTICLES[par][0]
    return math.sqrt(e * (e + 2 * m))


def gen_opts(rng):
    if rng.chance(1, 2):
        return list(DEFAULT_OPTS)
    ms = log_uniform(rng, 1e-8, 1e-4)
    return [ms, log_uniform(rng, 1e-4, 1.0), ms * log_uniform(rng, 1.0001, 1e3),
            log_uniform(rng, 1e-7, 1e-2), log_uniform(rng, 1e-5, 1e-1), 1e-4,
            -0.5 + 0.45 * rng.unit(), -0.5 + 0.45 * rng.unit(), 0.5 + 0.49 * rng.unit(),
            1.01 + 9 * rng.unit(), 0.02 + 0.9 * rng.unit(), rng.choice([1, 2, 5, 20, 100, 100, 200]),
            rng.choice([1, 2, 3, 10, 10, 10, 50])]


def gen_case(rng, geos=None):
    """one `run` line + metadata (python values of everything on it)"""
    gname = rng.choice(geos or list(GEOS))
    half, cen, scale = GEOS[gname]
    par = rng.choice(list(PARTICLES))
    e = log_uniform(rng, 1e-4, 1e5)
    p = momentum_of(par, e)
    q = PARTICLES[par][1]
    # gyroradius from 1e-6 to 1e6 times the geometry scale (mostly 1e-2 .. 1e2)
    ratio = log_uniform(rng, 1e-6, 1e6) if rng.chance(1, 4) else log_uniform(rng, 1e-2, 1e2)
    radius = ratio * scale
    bmag = p / (C_R * abs(q) * radius) * TESLA
    fk = rng.below(10)
    if fk < 4:
        fld, b = "u", [c * bmag for c in rnd_dir(rng)]
    elif fk < 8:
        fld, b = "z", [0.0, 0.0, bmag * rng.choice([1.0, -1.0])]
    elif fk < 9 and gname == "simple-cms":
        fld, b = "rz", [0.0, 0.0, 0.0]
    else:
        fld, b = "u", [0.0, 0.0, 0.0] if rng.chance(1, 2) else [c * bmag for c in rnd_dir(rng)]
    stp = rng.choice(["dp", "dp", "rk4"])
    pos = [cen[i] + (rng.unit() * 2 - 1) * half[i] for i in range(3)]
    if rng.chance(1, 8):
        pos = [float(round(c)) for c in pos]          # lattice points: often exactly on surfaces
    d = rnd_dir(rng)
    o = gen_opts(rng)
    nst = rng.choice([1, 1, 2, 3, 6])
    steps = []
    for _ in range(nst):
        k = rng.below(8)
        if k == 0:
            steps.append(o[0] * log_uniform(rng, 1e-3, 1.0))            # below minimum_step
        elif k == 1:
            steps.append(2 * math.pi * radius * log_uniform(rng, 1.0, 30.0))   # many turns
        elif k == 2:
            steps.append(scale * log_uniform(rng, 1e-8, 1e-3))
        else:
            steps.append(scale * log_uniform(rng, 1e-2, 1e2))
    pre = rng.choice(["0", "0", "0", "1", "2"])
    kv = {"geo": gname, "fld": fld, "B": v3(b), "stp": stp, "par": par, "E": hx(e), "pos": v3(pos),
          "dir": v3(d), "opts": opts_str(o), "steps": ",".join(hx(s) for s in steps), "pre": pre,
          "cross": "1" if rng.chance(3, 4) else "0"}
    meta = {"geo": gname, "fld": fld, "B": b, "stp": stp, "par": par, "E": e, "p": p, "q": q,
            "pos": pos, "dir": d, "opts": o, "steps": steps, "pre": pre, "radius": radius,
            "ratio": ratio}
    if pre != "0" and rng.chance(1, 2):
        d2 = rnd_dir(rng)
        if rng.chance(1, 2):       # near-tangent / grazing restart: tiny perturbation of an axis dir
            d2 = unit([d[i] + (rng.unit() - 0.5) * 1e-3 for i in range(3)])
        kv["dir2"] = v3(d2)
        meta["dir2"] = d2
    return "run " + " ".join(f"{k}={v}" for k, v in kv.items()), meta


def gen_zhelix_case(rng):
    """ZHelixStepper inside its domain of validity (see Props/C08 `zhelix_exact`): the helix axis
    is the z axis through the ORIGIN, the y component of the direction is non-zero, and either
    the code's "positive helicity" (q*Bz < 0) or no motion along z."""
    gname = rng.choice(["two-boxes", "field-layers", "three-spheres", "simple-cms", "one-steel-sphere",
                        "five-volumes", "testem3-flat"])
    half, cen, scale = GEOS[gname]
    par = rng.choice(list(PARTICLES))
    e = log_uniform(rng, 1e-3, 1e4)
    p, q = momentum_of(par, e), PARTICLES[par][1]
    rperp = scale * log_uniform(rng, 1e-2, 1.5)           # radius of the circle about the z axis
    positive = rng.chance(2, 3)
    cz = 0.0 if (not positive or rng.chance(1, 4)) else (rng.unit() * 1.6 - 0.8)
    sint = math.sqrt(1 - cz * cz)
    radius = rperp / sint                                   # p / (c |q| B)
    bz = p / (C_R * abs(q) * radius) * TESLA * (-1.0 if (q > 0) == positive else 1.0)
    a = rng.unit() * 2 * math.pi
    while abs(math.cos(a)) < 1e-3:
        a = rng.unit() * 2 * math.pi
    sgn = 1.0 if positive else -1.0                         # counter-clockwise for positive helicity
    pos = [rperp * math.cos(a), rperp * math.sin(a), (rng.unit() - 0.5) * half[2]]
    d = [-sgn * math.sin(a) * sint, sgn * math.cos(a) * sint, cz]
    o = gen_opts(rng)
    steps = [rperp * log_uniform(rng, 1e-3, 20.0) for _ in range(rng.choice([1, 2, 4]))]
    kv = {"geo": gname, "fld": "z", "B": v3([0, 0, bz]), "stp": "zh", "par": par, "E": hx(e),
          "pos": v3(pos), "dir": v3(d), "opts": opts_str(o), "steps": ",".join(hx(x) for x in steps),
          "pre": "0", "cross": "1"}
    meta = {"geo": gname, "fld": "z", "B": [0, 0, bz], "stp": "zh", "par": par, "E": e, "p": p, "q": q,
            "pos": pos, "dir": d, "opts": o, "steps": steps, "pre": "0", "radius": radius,
            "ratio": radius / scale}
    return "run " + " ".join(f"{k}={v}" for k, v in kv.items()), meta


def gen_tiny_radius_case(rng):
    """gyroradius far below the geometry scale (2e-5 .. 3e-3 cm: eV electrons in tesla fields)
    with a momentum component ALONG the field and steps of 1e-2 .. 1 cm, mostly with the DEFAULT
    driver options: FieldDriver::accurate_advance runs out of its max_nsteps integrations and
    must then report the arc it actually integrated; the end point is compared with the analytic
    helix (uniform fields only)."""
    gname = rng.choice(["two-boxes", "simple-cms", "field-layers", "three-spheres", "one-steel-sphere",
                        "testem3-flat"])
    half, cen, scale = GEOS[gname]
    par = rng.choice(["e-", "e-", "e+", "mu-", "p", "alpha"])
    e = log_uniform(rng, 1e-7, 1e-3)
    p, q = momentum_of(par, e), PARTICLES[par][1]
    radius = log_uniform(rng, 2e-5, 3e-3)
    bmag = p / (C_R * abs(q) * radius) * TESLA
    h = rnd_dir(rng) if rng.chance(1, 2) else [0.0, 0.0, rng.choice([1.0, -1.0])]
    fld = "z" if (h[0] == 0.0 and h[1] == 0.0) else "u"
    b = [c * bmag for c in h]
    # direction with cos(angle to B) in +-[0.3, 0.97]
    cpar = (0.3 + 0.67 * rng.unit()) * rng.choice([1.0, -1.0])
    t = unit([rng.unit() * 2 - 1 for _ in range(3)])
    dot = sum(t[i] * h[i] for i in range(3))
    perp = unit([t[i] - dot * h[i] for i in range(3)])
    sp = math.sqrt(1 - cpar * cpar)
    d = unit([cpar * h[i] + sp * perp[i] for i in range(3)])
    k = rng.below(8)
    o = list(DEFAULT_OPTS)
    if k == 0:
        o[11] = 10
    elif k == 1:
        o[11] = 50
    elif k == 2:
        o = gen_opts(rng)
        o[11] = max(o[11], 10)
        if o[0] > radius / 20:          # keep the gyration resolvable: minimum_step <= r / 20
            f = (radius / 20) / o[0]
            o[0] *= f
            o[2] *= f
    pos = [cen[i] + (rng.unit() * 2 - 1) * half[i] * 0.6 for i in range(3)]
    steps = [log_uniform(rng, 1e-2, 1.0) for _ in range(rng.choice([1, 2, 3]))]
    kv = {"geo": gname, "fld": fld, "B": v3(b), "stp": rng.choice(["dp", "dp", "rk4"]), "par": par,
          "E": hx(e), "pos": v3(pos), "dir": v3(d), "opts": opts_str(o),
          "steps": ",".join(hx(x) for x in steps), "pre": "0", "cross": "1"}
    meta = {"geo": gname, "fld": fld, "B": b, "stp": kv["stp"], "par": par, "E": e, "p": p, "q": q,
            "pos": pos, "dir": d, "opts": o, "steps": steps, "pre": "0", "radius": radius,
            "ratio": radius / scale, "tiny_radius": True}
    return "run " + " ".join(f"{k}={v}" for k, v in kv.items()), meta


def gen_budget_probe(rng):
    """first stage of the substep-budget cases: a curved track that meets no boundary (small circle
    in the inner box of two-boxes, or near the axis of the 30 cm beam pipe of simple-cms) asked
    for a step far longer than max_substeps chord-limited substeps"""
    if rng.chance(1, 2):
        gname, radius, cz = "two-boxes", log_uniform(rng, 0.05, 1.5), 0.0
        pos = [(rng.unit() - 0.5) * 4, (rng.unit() - 0.5) * 4, (rng.unit() - 0.5) * 6]
    else:
        gname, radius, cz = "simple-cms", log_uniform(rng, 0.1, 5.0), (rng.unit() * 1.6 - 0.8)
        pos = [(rng.unit() - 0.5) * 20, (rng.unit() - 0.5) * 20, (rng.unit() - 0.5) * 100]
    par = rng.choice(list(PARTICLES))
    e = log_uniform(rng, 1e-2, 1e4)
    p, q = momentum_of(par, e), PARTICLES[par][1]
    sint = math.sqrt(1 - cz * cz)
    bz = p / (C_R * abs(q) * radius) * TESLA * rng.choice([1.0, -1.0])
    a = rng.unit() * 2 * math.pi
    d = [math.cos(a) * sint, math.sin(a) * sint, cz]
    o = list(DEFAULT_OPTS) if rng.chance(2, 3) else gen_opts(rng)
    if o[11] < 20:
        o[11] = 100               # keep the known max_nsteps finding out of these cases
    o[12] = rng.choice([1, 2, 4, 10, 10, 10])
    fld = rng.choice(["z", "u"])
    stp = rng.choice(["dp", "dp", "rk4"])
    meta = {"geo": gname, "fld": fld, "B": [0.0, 0.0, bz], "stp": stp, "par": par, "E": e, "p": p,
            "q": q, "pos": pos, "dir": d, "opts": o, "pre": "0", "radius": radius,
            "ratio": radius / GEOS[gname][2], "budget_edge": True}
    return meta


def budget_line(meta, steps):
    kv = {"geo": meta["geo"], "fld": meta["fld"], "B": v3(meta["B"]), "stp": meta["stp"],
          "par": meta["par"], "E": hx(meta["E"]), "pos": v3(meta["pos"]), "dir": v3(meta["dir"]),
          "opts": opts_str(meta["opts"]), "steps": ",".join(hx(x) for x in steps), "pre": "0",
          "cross": "1"}
    return "run " + " ".join(f"{k}={v}" for k, v in kv.items())


def budget_edge_cases(rng, exe, n):
    """second stage: steps of (k - 1 + f) chord-limited substeps for k = max_substeps, i.e. steps
    that are completed by exactly the LAST allowed substep (f in (0, 1]), next to steps just
    below (k - 1 substeps) and just above (genuinely looping).  The substep lengths come from a
    probe run of the real code with a very long step."""
    probes = [gen_budget_probe(rng) for _ in range(n)]
    _, out = vlib.run_lines([exe], [budget_line(m, [m["radius"] * 500.0]) for m in probes])
    cases = []
    for m, o in zip(probes, out):
        if not o.startswith("B "):
            continue
        try:
            seg = parse_trace(o)[0]
        except (ValueError, IndexError):
            continue
        subs, last = [], None
        res = None
        for t, a in seg["events"]:
            if t == "->adv":
                last = fl(a[0])
            elif t == "->fns" and a[0] == "0" and last is not None:
                subs.append(last)
            elif t == "res":
                res = a
        nmax = m["opts"][12]
        if res is None or res[2] != "1" or len(subs) != nmax:
            continue
        d_prev, s_last = sum(subs[:-1]), subs[-1]
        steps = [d_prev + f * s_last for f in (0.5, 0.85, 0.2)]
        steps.append(d_prev + s_last)                     # the probe's looping distance itself
        steps.append((d_prev + s_last) * 1.08)            # one substep too many: looping
        if nmax > 1:
            steps.append(d_prev * 0.97)                   # completed with a substep to spare
        rng.shuffle(steps)
        mm = dict(m)
        mm["steps"] = steps
        cases.append((budget_line(m, steps), mm))
    return cases


def gen_tangent_case(rng):
    """two-boxes (inner box |x|,|y|,|z| <= 5): circular track in the x-y plane whose circle
    touches the plane x = 5 within eps (near-tangent incidence), uniform z field"""
    par = rng.choice(["e-", "e+", "mu+", "p"])
    e = log_uniform(rng, 1e-1, 1e3)
    p, q = momentum_of(par, e), PARTICLES[par][1]
    radius = log_uniform(rng, 0.05, 4.0)
    eps = rng.choice([0.0, 1e-12, -1e-12, 1e-9, -1e-9, 1e-7, -1e-7, 1e-6, -1e-6, 1e-5, -1e-5, 1e-4,
                      -1e-4])
    cx, cy = 5.0 - radius + eps, (rng.unit() - 0.5) * 4
    a = rng.unit() * 2 * math.pi
    pos = [cx + radius * math.cos(a), cy + radius * math.sin(a), (rng.unit() - 0.5) * 4]
    sgn = rng.choice([1.0, -1.0])      # sense of rotation
    d = [-sgn * math.sin(a), sgn * math.cos(a), 0.0]
    # rotation sense: counter-clockwise (sgn=+1) for negative charge in +z field
    bz = p / (C_R * abs(q) * radius) * TESLA * (1.0 if (q < 0) == (sgn > 0) else -1.0)
    o = gen_opts(rng)
    steps = [2 * math.pi * radius * rng.choice([0.3, 1.0, 2.5])] * rng.choice([1, 3])
    stp = rng.choice(["dp", "rk4"])
    kv = {"geo": "two-boxes", "fld": "z", "B": v3([0, 0, bz]), "stp": stp, "par": par, "E": hx(e),
          "pos": v3(pos), "dir": v3(d), "opts": opts_str(o), "steps": ",".join(hx(s) for s in steps),
          "pre": "0", "cross": "1"}
    meta = {"geo": "two-boxes", "fld": "z", "B": [0, 0, bz], "stp": stp, "par": par, "E": e, "p": p,
            "q": q, "pos": pos, "dir": d, "opts": o, "steps": steps, "pre": "0", "radius": radius,
            "ratio": radius / 5.0, "tangent_eps": eps}
    return "run " + " ".join(f"{k}={v}" for k, v in kv.items()), meta


# ------------------------------------------------------------------------------- trace parsing
ARITY = {"B": 1, "p": 1, "g0": 6, "onb": 1, "adv": 7, "st": 7, "=>": 18, "sd": 3, "fns": 1, "mi": 3,
         "mtb": 0, "res": 3, "fin": 7, "X": 0, "out": 0, "exception": 0}


def parse_trace(out):
    """-> list of segments; segment = dict(step, events=[(tag, [tokens])], exception: bool)
    `->` is resolved against the pending call: adv -> 7, fns -> 2, mtb -> 3."""
    toks = out.split()
    segs, i, pending = [], 0, None
    cur = None
    while i < len(toks):
        t = toks[i]
        if t == "->":
            n = {"adv": 7, "fns": 2, "mtb": 3}.get(pending)
            if n is None:
                raise ValueError("dangling -> at %d" % i)
            cur["events"].append(("->" + pending, toks[i + 1:i + 1 + n]))
            i += 1 + n
            pending = None
            continue
        if t not in ARITY:
            raise ValueError("unknown token %r at %d" % (t, i))
        n = ARITY[t]
        args = toks[i + 1:i + 1 + n]
        if len(args) != n:
            raise ValueError("short args for %s" % t)
        if t == "B":
            cur = {"step": args[0], "events": [], "exception": False}
            segs.append(cur)
        elif cur is None:
            raise ValueError("event before B")
        if t == "exception":
            cur["exception"] = True
        cur["events"].append((t, args))
        if t in ("adv", "fns", "mtb"):
            pending = t
        i += 1 + n
    return segs


def seg_lines(seg, o):
    """model input lines + expected model outputs for one recorded propagation"""
    ev = seg["events"]
    d = dict((t, a) for t, a in ev if t in ("p", "g0", "onb"))
    head = ["prop", seg["step"], hx(o[0]), hx(o[2]), "%d" % o[12], d["p"][0]] + d["g0"] + d["onb"]
    ans, exp_prop = [], []
    drv, exp_drv = ["drvseq"] + opts_str(o, " ").split(), []
    for t, a in ev:
        if t in ("X", "out", "exception"):
            continue
        if t in ("st", "=>"):
            exp_drv += [t] + a
            drv += (["S"] + a) if t == "=>" else []
            continue
        if t == "adv":
            exp_drv += ["adv"] + a
            drv += ["A"] + a
        if t == "->adv":
            exp_drv += ["->"] + a
            ans += ["D"] + a
        if t == "->fns":
            ans += ["G"] + a
        if t == "->mtb":
            ans += ["M"] + a
        exp_prop += [t if not t.startswith("->") else "->"] + a
    return " ".join(head + ans), " ".join(exp_prop), " ".join(drv), " ".join(exp_drv)


# ------------------------------------------------------------------------------- oracles
def helix_point(pos, d, b, q, p, s):
    """analytic trajectory of charge q (units e), momentum p [MeV/c], field b [gauss] after arc s"""
    bn = norm(b)
    if bn == 0.0 or q == 0:
        return [pos[i] + s * d[i] for i in range(3)], list(d)
    h = [c / bn for c in b]
    # d(dir)/ds = k * (dir x B), k = q*c_R/(p) per tesla -> per gauss
    k = q * C_R / p / TESLA * bn          # 1/cm  (signed curvature)
    dpar = sum(d[i] * h[i] for i in range(3))
    par = [dpar * h[i] for i in range(3)]
    perp = [d[i] - par[i] for i in range(3)]
    cr = [perp[1] * h[2] - perp[2] * h[1], perp[2] * h[0] - perp[0] * h[2],
          perp[0] * h[1] - perp[1] * h[0]]          # perp x h
    th = k * s
    sn, cs = math.sin(th), math.cos(th)
    # dir(s) = par + perp cos(th) + (perp x h) sin(th)
    # pos(s) = pos + par s + perp sin(th)/k + (perp x h) (1 - cos(th))/k
    if abs(th) < 1e-6:
        a1, a2 = s * (1 - th * th / 6), s * th / 2 * (1 - th * th / 12)
    else:
        a1, a2 = sn / k, (1 - cs) / k
    pt = [pos[i] + par[i] * s + perp[i] * a1 + cr[i] * a2 for i in range(3)]
    dr = [par[i] + perp[i] * cs + cr[i] * sn for i in range(3)]
    return pt, dr


def dist(a, b):
    return math.sqrt(sum((a[i] - b[i]) ** 2 for i in range(3)))


def nan_norm(line):
    """NaN sign/payload is not compared (x86 default NaN is negative, Lean prints a positive one)"""
    if "7ff8" not in line and "fff8" not in line and "7ff" not in line and "fff" not in line:
        return line
    return " ".join("nan" if (len(t) == 16 and numself.is_nan_bits(t)) else t for t in line.split())


def driver_arcs(seg):
    """For every recorded driver.advance: integrated arc length of the RETURNED state, obtained
    by chaining the recorded stepper calls (state_in --h--> state_end), next to the returned
    substep.  -> list of (requested, returned_step, arc_of_returned_state or None)"""
    out, arcs, req = [], None, None
    for t, a in seg["events"]:
        if t == "adv":
            arcs, req, pend = {tuple(a[1:7]): 0.0}, fl(a[0]), None
        elif t == "st" and arcs is not None:
            pend = (fl(a[0]), tuple(a[1:7]))
        elif t == "=>" and arcs is not None and pend is not None:
            base = arcs.get(pend[1])
            if base is not None:
                arcs[tuple(a[6:12])] = base + pend[0]
        elif t == "->adv":
            out.append((req, fl(a[0]), arcs.get(tuple(a[1:7])) if arcs else None))
            arcs = None
    return out


def zh_off_axis(pos, mom, meta):
    """relative distance of the z axis through the origin from the axis of the helix through
    (pos, mom) in the field (0, 0, Bz): 0 when ZHelixStepper's rotation about the origin is right"""
    pn = norm(mom)
    bz = meta["B"][2]
    if pn == 0 or bz == 0:
        return 0.0
    d = [c / pn for c in mom]
    sint = math.hypot(d[0], d[1])
    rad = abs((meta["p"]) / (C_R * meta["q"] * bz / TESLA))
    rperp = rad * sint
    if rperp == 0:
        return 0.0
    # centre of gyration = pos + rperp * (dir_perp rotated by -sign(q Bz) * 90 deg)
    sg = 1.0 if meta["q"] * bz > 0 else -1.0
    ux, uy = d[0] / sint, d[1] / sint
    cx, cy = pos[0] + sg * rperp * uy, pos[1] - sg * rperp * ux
    return math.hypot(cx, cy) / rperp


class Stats:
    def __init__(self):
        self.n = {}
        self.mx = {}

    def inc(self, k, v=1):
        self.n[k] = self.n.get(k, 0) + v

    def max(self, k, v):
        if v > self.mx.get(k, -1.0):
            self.mx[k] = v


def check_segment(seg, meta, st, fails, line, xc=None):
    """contracts on every recorded answer + the property's own predicate on the real result.
    Appends (key, what, info) to fails."""
    o = meta["opts"]
    min_sub, delta_int, delta_chord, eps_rel = o[0], o[2], o[1], o[4]
    ev = seg["events"]
    step = fl(seg["step"])
    g0 = p0 = onb0 = None
    cur_adv = None
    last_move = None
    n_acc = 0
    res = fin = None
    pending_max = None
    chord_len = None
    arcs = driver_arcs(seg)
    k_adv = 0
    tainted = False          # known finding: driver loop left with max_nsteps spent (arc > step)
    n_accept = 0             # substeps accepted by the propagator (no boundary along the chord)
    # regime of the known finding `helix-gyroradius-below-minimum-step`: the gyroradius
    # p / (c |q| |B|) of THIS propagation is below ITS minimum_step (uniform fields only)
    bn_ = norm(meta["B"]) if meta["fld"] in ("u", "z") else 0.0
    p_tok = next((fl(a[0]) for t, a in ev if t == "p"), None)
    rad_ = (abs(p_tok / (C_R * meta["q"] * bn_ / TESLA)) if (bn_ > 0 and p_tok and meta["q"])
            else float("inf"))
    below_min = rad_ < min_sub
    if below_min:
        st.inc("propagations_gyroradius_below_minimum_step")
    for t, a in ev:
        if t == "g0":
            g0 = [fl(x) for x in a]
        elif t == "p":
            p0 = fl(a[0])
        elif t == "onb":
            onb0 = a[0] == "1"
        elif t == "adv":
            cur_adv = [fl(x) for x in a]
        elif t == "->adv":
            r = [fl(x) for x in a]
            rem, sub = cur_adv[0], r[0]
            st.inc("driver_answers")
            arc = arcs[k_adv][2] if k_adv < len(arcs) else None
            if xc and k_adv < len(xc) and xc[k_adv]:
                # find_next_chord left its loop unsuccessfully (max_nsteps spent) and the driver
                # went on as if the chord criterion had been met
                st.inc("driver_chord_search_exhausted")
                st.inc("driver_exhausted_at_max_nsteps_%d" % o[11])
                if not tainted:
                    fails.append(("driver-max-nsteps-exhausted",
                                  "FieldDriver::find_next_chord ran out of max_nsteps; advance() "
                                  "continues as if the sagitta criterion held (and, without a "
                                  "following accurate_advance, returns the un-shrunk trial's state "
                                  "with the shrunk step length)",
                                  {"requested": rem, "returned_step": sub,
                                   "arc_of_returned_state": arc, "max_nsteps": o[11]}))
                tainted = True
            k_adv += 1
            if arc is None:
                st.inc("driver_answers_arc_unknown")
            elif arc < sub * (1 - 1e-9):
                # the driver claims a longer step than it integrated.  The known max_nsteps finding
                # goes the other way (arc > step), and a short accurate_advance must be reported
                # as short (`output.end = accurate_advance(...)` takes its step too): own key
                st.inc("driver_step_exceeds_arc")
                fails.append(("driver-step-exceeds-integrated-arc",
                              "FieldDriver::advance reports a substep LONGER than the arc it "
                              "integrated into the returned state (e.g. accurate_advance ran out "
                              "of max_nsteps integrations but the chord-search length is reported)",
                              {"requested": rem, "returned_step": sub, "arc_of_returned_state": arc,
                               "max_nsteps": o[11], "default_options": o == DEFAULT_OPTS}))
            elif arc > sub * (1 + 1e-9):
                # FieldDriver::find_next_chord / one_good_step left their loop with max_nsteps spent:
                # the step was scaled once more AFTER the last stepper call, so the returned
                # `step` is shorter than the arc actually integrated into the returned `state`
                st.inc("driver_state_step_mismatch")
                st.inc("driver_exhausted_at_max_nsteps_%d" % o[11])
                st.max("max_arc_over_reported_step", arc / sub if sub > 0 else float("inf"))
                tainted = True
                fails.append(("driver-max-nsteps-exhausted",
                              "FieldDriver::advance returned a state integrated over a longer arc "
                              "than the step length it reports (max_nsteps exhausted in "
                              "find_next_chord / one_good_step: the step is scaled once more after "
                              "the last stepper call)",
                              {"requested": rem, "returned_step": sub, "arc_of_returned_state": arc,
                               "max_nsteps": o[11]}))
            if tainted:
                pass
            elif not (sub > 0 and sub <= rem):
                fails.append(("contract:driver-substep-range", "driver.advance returned a substep outside "
                              "(0, requested]", {"requested": rem, "returned": sub}))
            chord_len = dist(cur_adv[1:4], r[1:4])
            # rounding floor of a chord computed from two positions of magnitude |pos|
            ulp_pos = 8 * 2.220446049250313e-16 * max(norm(cur_adv[1:4]), norm(r[1:4]))
            if sub > 0 and not tainted and chord_len > sub and chord_len - sub <= ulp_pos:
                st.inc("chord_excess_within_position_rounding")
            elif sub > 0 and not tainted:
                st.max("max_chord_over_substep_minus_1", chord_len / sub - 1.0)
                st.max("max_chord_excess_over_eps_rel_max", (chord_len / sub - 1.0) / eps_rel)
                if chord_len > sub * (1 + 1e-9) + 1e-300:
                    st.inc("chord_longer_than_substep")
                    # the embedded error estimate is not a bound (it underestimates on the
                    # interpolated RZ map and for steps of order one radian): kappa = 1 + 25 eps
                    if chord_len > sub * (1 + 25 * eps_rel) and below_min:
                        st.inc("below_minimum_step_chord_deviation")
                        fails.append(("helix-gyroradius-below-minimum-step",
                                      "gyroradius below minimum_step (validated options): integration "
                                      "steps are floored at minimum_step without error control; here "
                                      "the chord of a driver substep is longer than its curved length",
                                      {"deviation": "chord-longer-than-substep", "substep": sub,
                                       "chord": chord_len, "radius": rad_, "minimum_step": min_sub,
                                       "p_in": norm(cur_adv[4:7]), "p_out": norm(r[4:7])}))
                    elif (chord_len > sub * (1 + 25 * eps_rel) and meta["stp"] == "zh"
                            and zh_off_axis(cur_adv[1:4], cur_adv[4:7], meta) > 1e-6):
                        # ZHelixStepper rotates about the origin: once a boundary landing (within
                        # delta_intersection) has moved the track off its helix the lever arm is
                        # wrong -- the known `zhelix-off-axis` defect, not a driver contract breach
                        st.inc("zhelix_off_axis_after_boundary_snap")
                        fails.append(("zhelix-off-axis", "ZHelixStepper (rotation about the origin) "
                                      "after a boundary landing displaced the track from its helix by "
                                      "up to delta_intersection: chord longer than the curved substep",
                                      {"substep": sub, "chord": chord_len, "delta_intersection": delta_int}))
                    elif chord_len > sub * (1 + 25 * eps_rel):
                        fails.append(("contract:driver-chord-le-substep", "chord between start and end of "
                                      "a substep exceeds the curved substep length beyond the "
                                      "integration tolerance", {"substep": sub, "chord": chord_len}))
            pin, pout = norm(cur_adv[4:7]), norm(r[4:7])
            if pin > 0 and not tainted and below_min:
                st.max("max_rel_momentum_change_per_substep_below_minimum_step", abs(pout / pin - 1.0))
            elif pin > 0 and not tainted:
                dev = abs(pout / pin - 1.0)
                st.max("max_rel_momentum_change_per_substep", dev)
                if meta["stp"] == "zh":
                    st.max("max_rel_momentum_change_per_substep_zhelix", dev)
                st.max("max_rel_momentum_change_per_substep_over_eps_rel_max", dev / eps_rel)
        elif t == "fns":
            pending_max = fl(a[0])
        elif t == "->fns":
            b, dd = a[0] == "1", fl(a[1])
            st.inc("geo_answers")
            if b:
                st.inc("geo_boundary_answers")
                if not (0 <= dd <= pending_max * (1 + 1e-12)):
                    fails.append(("contract:geo-distance-range", "find_next_step(max) reports a boundary "
                                  "at a distance outside [0, max]", {"max": pending_max, "distance": dd}))
            else:
                n_accept += 1
                if not (dd == pending_max):
                    st.inc("geo_noboundary_distance_ne_max")
        elif t == "mi":
            last_move = "mi"
        elif t == "->mtb":
            last_move = "mtb"
        elif t == "res":
            res = (fl(a[0]), a[1] == "1", a[2] == "1")
        elif t == "fin":
            fin = ([fl(x) for x in a[:6]], a[6] == "1")
    if seg["exception"] or res is None or fin is None:
        st.inc("segments_with_exception")
        return
    distance, boundary, looping = res
    st.inc("segments")
    if tainted:
        st.inc("segments_tainted_by_driver_mismatch")
    st.inc("result_boundary" if boundary else ("result_looping" if looping else "result_full_or_bump"))
    # (1) distance in (0, step] up to rounding
    if not (distance > 0 and distance <= step * (1 + 1e-9)):
        fails.append(("oracle:distance-range", "returned distance outside (0, step(1+1e-9)]",
                      {"step": step, "distance": distance}))
    st.max("max_distance_over_step_minus_1", distance / step - 1.0)
    # (2) boundary flag = geometry on-boundary state = last move was move_to_boundary
    if boundary != fin[1]:
        fails.append(("oracle:boundary-flag", "result.boundary differs from geo.is_on_boundary()",
                      {"result": boundary, "geo": fin[1]}))
    if last_move is None or boundary != (last_move == "mtb"):
        fails.append(("oracle:boundary-last-move", "result.boundary is not (last geometry move == "
                      "move_to_boundary)", {"result": boundary, "last_move": last_move}))
    # (3) exactly one of: boundary / looping / full step (or a bump after no progress)
    if boundary and looping:
        fails.append(("oracle:boundary-and-looping", "both boundary and looping set", {}))
    # (3b) the outcomes are exclusive (Props/C08 looping_implies_incomplete): looping means the
    # step was NOT completed and the whole substep budget was spent; a spent budget without the
    # looping flag means the step was completed
    if looping and not (distance < step):
        fails.append(("oracle:looping-but-step-completed", "looping flag set although the full step "
                      "was travelled (distance == step): PropagationApplier would treat a completed "
                      "step as propagation-limited / count it towards the looping cut",
                      {"step": step, "distance": distance, "accepted_substeps": n_accept,
                       "max_substeps": o[12]}))
    if looping and n_accept != o[12]:
        fails.append(("oracle:looping-without-spent-budget", "looping flag set but the number of "
                      "accepted substeps is not max_substeps",
                      {"accepted_substeps": n_accept, "max_substeps": o[12]}))
    if not looping and n_accept == o[12] and n_accept > 0 and not (distance >= step):
        fails.append(("oracle:budget-spent-unflagged", "max_substeps substeps accepted, step not "
                      "completed, yet not flagged looping",
                      {"step": step, "distance": distance, "max_substeps": o[12]}))
    if n_accept == o[12]:
        st.inc("budget_spent_looping" if looping else "budget_spent_step_completed")
    if not boundary and not looping and not (distance == step):
        st.inc("result_short_unflagged")       # the stuck-on-boundary bump (documented)
        bump = min(0.1 * delta_int, step)
        if not (distance == bump):
            fails.append(("oracle:short-unflagged", "neither boundary nor looping, yet distance is "
                          "neither the step nor the bump distance", {"step": step, "distance": distance,
                                                                      "bump": bump}))
    # (4) final direction is a unit vector; the particle's |p| is not touched (const view)
    dn = norm(fin[0][3:6])
    st.max("max_abs_final_dir_norm_minus_1", abs(dn - 1.0))
    if abs(dn - 1.0) > 1e-12:
        fails.append(("oracle:direction-unit", "final direction is not a unit vector", {"norm": dn}))
    # (5) uniform field: end point on the analytic helix within the configured tolerances
    if meta["fld"] in ("u", "z") and g0 is not None and not tainted:
        pt, dr = helix_point(g0[:3], g0[3:6], meta["B"], meta["q"], p0, distance)
        resid = dist(pt, fin[0][:3])
        bn = norm(meta["B"])
        rad = abs(p0 / (C_R * meta["q"] * bn / TESLA)) if bn > 0 else float("inf")
        turns = distance / rad if rad > 0 else 0.0
        # the driver accepts an integration step when its estimated relative error is below
        # eps_rel in position (eps_rel * h) and in direction (eps_rel, which then displaces the end
        # point by eps_rel * remaining arc): n_int accepted steps give at most
        # eps_rel * distance * (1 + n_int); at a boundary the point is taken on the chord (sagitta
        # <= delta_chord + dchord_tol) within delta_intersection
        n_int = sum(1 for t, _ in ev if t == "st")     # >= number of accepted integration steps
        tol_old = (eps_rel * distance * (2.0 + n_int) + (delta_chord + DCHORD_TOL + 2 * delta_int)
                   + 1e-9 * (norm(g0[:3]) + distance))
        # sharper: the sagitta allowance (delta_chord) only applies when the end point was taken
        # on a chord, i.e. at a boundary landing -- otherwise the end point is the end state of an
        # integration step (the intersection tolerance stays: reported and travelled distance may
        # differ by it, and the bump is of that size).  It is also kept while the gyration is not
        # resolved by the driver at all (radius < 100 minimum_step: integration steps are floored
        # at minimum_step).  The embedded error estimate under-estimates by a small factor (4x).
        unresolved = rad < 100 * min_sub
        tol_new = (4 * eps_rel * distance * (2.0 + n_int) + 2 * delta_int
                   + ((delta_chord + DCHORD_TOL) if (boundary or unresolved) else 0.0)
                   + 1e-9 * (norm(g0[:3]) + distance))
        tol = min(tol_old, tol_new)
        st.inc("helix_cases")
        st.max("max_helix_residual_over_tol", resid / tol)
        if meta.get("tiny_radius") or rad < 3e-3:
            st.inc("helix_cases_tiny_radius")
            if o == DEFAULT_OPTS:
                st.inc("helix_cases_tiny_radius_default_options")
            st.max("max_helix_residual_over_tol_tiny_radius", resid / tol)
        if resid > tol and rad < min_sub:
            # gyroradius BELOW minimum_step: the driver floors its integration steps at
            # minimum_step ("quick advance", no error control), the gyration cannot be resolved
            st.inc("helix_failures_gyroradius_below_minimum_step")
            fails.append(("helix-gyroradius-below-minimum-step",
                          "gyroradius below minimum_step (validated options): integration steps are "
                          "floored at minimum_step without error control and the end point leaves "
                          "the analytic helix by more than the configured tolerances",
                          {"deviation": "helix-residual", "residual": resid, "tol": tol,
                           "distance": distance, "radius": rad, "minimum_step": min_sub,
                           "end": fin[0][:3], "helix": pt}))
        elif resid > tol and meta["stp"] == "zh" and (
                any(t == "->mtb" for t, _ in ev) or zh_off_axis(g0[:3], g0[3:6], meta) > 1e-6):
            st.inc("zhelix_off_axis_after_boundary_snap")
            fails.append(("zhelix-off-axis", "ZHelixStepper (rotation about the origin) leaves the "
                          "analytic helix once a boundary landing has displaced the start point",
                          {"residual": resid, "tol": tol, "distance": distance, "radius": rad}))
        elif resid > tol:
            fails.append(("oracle:helix-residual", "end point farther from the analytic helix than "
                          "the configured chord/intersection/integration tolerances allow",
                          {"residual": resid, "tol": tol, "distance": distance, "radius": rad,
                           "end": fin[0][:3], "helix": pt}))
    return None


# ------------------------------------------------------------------------------- direct ops
def drv_model_line(out, o):
    """harness `drv` trace -> model `drvseq` input (answers only)"""
    toks = out.split()
    line = ["drvseq"] + opts_str(o, " ").split()
    i = 0
    while i < len(toks):
        t = toks[i]
        n = {"adv": 7, "st": 7, "=>": 18, "->": 7}.get(t)
        if n is None:
            return None
        if t == "adv":
            line += ["A"] + toks[i + 1:i + 8]
        elif t == "=>":
            line += ["S"] + toks[i + 1:i + 19]
        i += 1 + n
    return " ".join(line)


def gen_state(rng, scale=5.0):
    pos = [(rng.unit() * 2 - 1) * scale for _ in range(3)]
    d = rnd_dir(rng)
    p = log_uniform(rng, 1e-3, 1e4)
    return pos, [c * p for c in d], p


def direct_ops(ctx, exe, n):
    """ops answered by both sides from the same inputs (no recorded answers): options
    validation, defaults/constants, MagFieldEquation, ZHelixStepper closed form, and the
    FieldDriver alone over recorded stepper answers.  Returns (lines_compared, diffs)."""
    rng = ctx.rng
    # Lorentz coefficient for each charge as the running code computes it
    charges = [-1.0, 1.0, 2.0, -2.0]
    _, co = vlib.run_lines([exe], ["coeff " + hx(q) for q in charges])
    coeff = dict(zip(charges, co))
    hl, ml = ["defaults"], ["defaults"]
    for _ in range(n):
        k = rng.below(4)
        if k == 0:      # options: valid, and each clause violated / on its edge
            o = gen_opts(rng)
            j = rng.below(16)
            edge = {0: (0, 0.0), 1: (1, 0.0), 2: (2, o[0]), 3: (3, 0.0), 4: (3, 1.0), 5: (4, 0.0),
                    6: (6, 0.0), 7: (7, 0.0), 8: (8, 1.0), 9: (8, 0.0), 10: (9, 1.0), 11: (10, 1.0),
                    12: (10, 0.0), 13: (11, 0), 14: (12, 0)}.get(j)
            if edge:
                o[edge[0]] = edge[1] if rng.chance(2, 3) else (
                    -abs(o[edge[0]]) if edge[0] < 11 else -1)
            if rng.chance(1, 20):
                o[rng.below(11)] = float("nan")
            line = "opts " + opts_str(o, " ")
            hl.append(line)
            ml.append(line)
        elif k == 1:    # MagFieldEquation
            pos, mom, _ = gen_state(rng)
            q = rng.choice(charges)
            b = [c * log_uniform(rng, 1e-2, 1e6) for c in rnd_dir(rng)]
            hl.append("rhs %s %s %s" % (" ".join(map(hx, b)), hx(q), " ".join(map(hx, pos + mom))))
            ml.append("rhsm %s %s %s" % (" ".join(map(hx, b)), coeff[q], " ".join(map(hx, pos + mom))))
        elif k == 2:    # ZHelixStepper, arbitrary (also off-axis) inputs: model must agree with code
            pos, mom, _ = gen_state(rng)
            q = rng.choice(charges)
            bz = log_uniform(rng, 1e-1, 1e6) * rng.choice([1.0, -1.0])
            h = log_uniform(rng, 1e-6, 1e2)
            if rng.chance(1, 6):
                mom[1] = 0.0
            hl.append("zh %s %s %s %s" % (hx(bz), hx(q), hx(h), " ".join(map(hx, pos + mom))))
            ml.append("zhm %s %s %s %s" % (hx(bz), coeff[q], hx(h), " ".join(map(hx, pos + mom))))
        else:           # FieldDriver alone, several advances on one driver object
            pos, mom, p = gen_state(rng)
            q = rng.choice(charges)
            radius = log_uniform(rng, 1e-4, 1e3)
            b = [c * p / (C_R * abs(q) * radius) * TESLA for c in rnd_dir(rng)]
            o = gen_opts(rng)
            steps = [radius * log_uniform(rng, 1e-4, 1e2) for _ in range(rng.range(1, 5))]
            if rng.chance(1, 5):
                steps[0] = o[0] * rng.unit()
            stp = rng.choice(["dp", "rk4", "zh"])
            hl.append("drv B=%s stp=%s q=%s pos=%s mom=%s opts=%s steps=%s chain=%s" % (
                v3(b), stp, hx(q), v3(pos), v3(mom), opts_str(o), ",".join(map(hx, steps)),
                rng.choice("01")))
            ml.append(("drv", o))
    hl += ["frob", "", "opts 1 2 3", "zh 0 0", "run geo=nope", "run geo=two-boxes"]
    _, ho = vlib.run_lines([exe], hl)
    ml += ["frob", "", "opts 1 2 3", "zhm 0 0", "prop 1 2", "drvseq 1"]
    # the driver lines need the recorded stepper answers from the harness output
    for i, m in enumerate(ml):
        if isinstance(m, tuple):
            ml[i] = drv_model_line(ho[i], m[1]) or "bad-op" if i < len(ho) else "bad-op"
    _, mo = vlib.run_lines([vlib.model_exe("C08")], ml)
    diffs = []
    kinds = {}
    arc_fails = []
    for i, l in enumerate(hl):
        if l.startswith("drv ") and i < len(ho) and ho[i].startswith("adv "):
            o_ = [fl(x) for x in l.split("opts=")[1].split()[0].split(",")[:11]]
            nst_ = int(l.split("opts=")[1].split()[0].split(",")[11])
            try:
                seg = parse_trace("B 0000000000000000 " + ho[i])[0]
            except ValueError:
                continue
            for req, sub, arc in driver_arcs(seg):
                if arc is not None and arc < sub * (1 - 1e-9):
                    arc_fails.append((l, "driver-step-exceeds-integrated-arc",
                                      {"requested": req, "returned_step": sub,
                                       "arc_of_returned_state": arc, "max_nsteps": nst_}))
                elif arc is not None and arc > sub * (1 + 1e-9):
                    arc_fails.append((l, "driver-max-nsteps-exhausted",
                                      {"requested": req, "returned_step": sub,
                                       "arc_of_returned_state": arc, "max_nsteps": nst_}))
    for i, l in enumerate(hl):
        a = ho[i] if i < len(ho) else "<missing>"
        b = (mo[i] if i < len(mo) else "<missing>").replace(" xc ", " ")
        k = (l.split() or ["empty"])[0]
        kinds[k] = kinds.get(k, 0) + 1
        if nan_norm(a) != nan_norm(b):
            diffs.append({"op": l[:600], "impl": a[:300], "model": b[:300],
                          "model_op": ml[i][:300]})
    return len(hl), diffs, kinds, coeff, arc_fails


ZH_WITNESSES = [
    # key, what, (bz[T], particle, E[MeV]), start (in units of the gyroradius R), direction, arc/R
    ("zhelix-off-axis",
     "ZHelixStepper rotates the position about the ORIGIN instead of the centre of gyration: "
     "off-axis start points leave the analytic helix",
     (1.0, "e-", 10.0), [2.0, 0.0, 0.0], [0.0, 1.0, 0.0], math.pi / 2),
    ("zhelix-negative-helicity-z",
     "ZHelixStepper advances z by -step*dir_z for its 'negative helicity' (q*Bz > 0)",
     (1.0, "e+", 10.0), [1.0, 0.0, 0.0], [0.0, -0.6, 0.8], 1.0),
    ("zhelix-diry-zero",
     "ZHelixStepper decides the sense of rotation from rhs.mom[0]/rhs.pos[1], which is 0/0 = NaN "
     "when the y component of the direction is 0: a positive charge then turns the wrong way",
     (1.0, "e+", 10.0), [0.0, 1.0, 0.0], [1.0, 0.0, 0.0], 1.0),
]


def zhelix_witnesses(ctx, exe):
    """the hypotheses `zhelix_exact` needs are not documented preconditions: run the real
    ZHelixStepper at the excluded points and compare with the analytic helix"""
    lines, metas = [], []
    for key, what, (bt, par, e), start, d, arc in ZH_WITNESSES:
        p, q = momentum_of(par, e), PARTICLES[par][1]
        rad = p / (C_R * abs(q) * bt)
        rperp = rad * math.sqrt(d[0] ** 2 + d[1] ** 2)
        pos = [c * rperp for c in start]
        mom = [c * p for c in d]
        h = arc * rad
        lines.append("zh %s %s %s %s" % (hx(bt * TESLA), hx(float(q)), hx(h),
                                         " ".join(map(hx, pos + mom))))
        exp, expd = helix_point(pos, d, [0, 0, bt * TESLA], q, p, h)
        metas.append((key, what, pos, d, h, exp, rperp))
    _, out = vlib.run_lines([exe], lines)
    found = []
    for l, o, (key, what, pos, d, h, exp, rperp) in zip(lines, out, metas):
        w = o.split()
        if len(w) != 18:
            continue
        end = [fl(x) for x in w[6:9]]
        err = dist(end, exp)
        if err > 1e-6 * rperp:
            found.append(key)
            ctx.violation(key, "real ZHelixStepper: " + what,
                          {"harness": "harness/fieldprop.cc", "op": l, "start": pos, "direction": d,
                           "arc_length": h, "expected_end_on_analytic_helix": exp, "actual_end": end,
                           "error_cm": err, "gyroradius_cm": rperp,
                           "theorem": "Props/C08.lean zhelix_exact needs: axis through the origin, "
                                      "dir_y != 0, positive helicity or dir_z = 0 "
                                      "(zhelix_off_axis_wrong, zhelix_negative_helicity_wrong)"})
    return found


# ------------------------------------------------------------------------------- main
def run(ctx):
    quick = ctx.quick()
    ps = common.proof_side(ctx, "C08")
    broken = list(ps["broken"])
    numself.run(ctx, 20000 if quick else 200000)
    exe, log, _ = vlib.build_harness("fieldprop", HARNESS["fieldprop"])
    if exe is None:
        ctx.violation("harness-build", "harness/fieldprop.cc no longer builds against /repo",
                      {"correspondence": "harness build", "log": log[-2000:]}, found_input=False)
        ctx.coverage.update({"evaluations": 0, "distinct_nontrivial": 0})
        return LEVEL
    rng = ctx.rng
    n_cases = (1000 if quick else 8000) * (2 if broken else 1)
    cases = []
    for i in range(n_cases):
        gen = (gen_tangent_case if i % 8 == 0 else gen_zhelix_case if i % 8 == 1
               else gen_tiny_radius_case if i % 8 == 2 else gen_case)
        cases.append(gen(rng))
    # steps completed by exactly the last allowed substep (probe run + targeted steps)
    cases += budget_edge_cases(rng, exe, (60 if quick else 400) * (2 if broken else 1))
    # corpus: past disagreements first
    corpus = []
    cdir = vlib.os.path.join(vlib.CORPUS, "C08")
    if vlib.os.path.isdir(cdir):
        for fn in sorted(vlib.os.listdir(cdir)):
            if fn.endswith(".ops"):
                corpus += [l.strip() for l in open(vlib.os.path.join(cdir, fn)) if l.startswith("run ")]
    lines = corpus + [c[0] for c in cases]
    metas = [meta_of_line(l) for l in corpus] + [c[1] for c in cases]
    t_h = vlib.time.time()
    _, out = vlib.run_lines([exe], lines, timeout=3000)
    t_h = vlib.time.time() - t_h
    st = Stats()
    status = {}
    mlines, expect, owner = [], [], []
    fails = []           # (case index, key, what, info)
    distinct = set()
    todo = []            # (case index, segment, index of its drvseq line in mlines or None)
    for i, l in enumerate(lines):
        o = out[i] if i < len(out) else "<missing>"
        if not o.startswith("B "):
            status[o[:24]] = status.get(o[:24], 0) + 1
            continue
        try:
            segs = parse_trace(o)
        except ValueError as e:
            fails.append((i, "trace-parse", "harness trace cannot be parsed: %s" % e, {}))
            continue
        status["traced"] = status.get("traced", 0) + 1
        for seg in segs:
            if seg["exception"]:
                todo.append((i, seg, None))
                continue
            a, b, c, d = seg_lines(seg, metas[i]["opts"])
            todo.append((i, seg, len(mlines) + 1))
            mlines += [a, c]
            expect += [b, d]
            owner += [i, i]
            nev = sum(1 for t, _ in seg["events"] if t == "adv")
            if nev > 1 or any(t == "->mtb" for t, _ in seg["events"]):
                distinct.add(a)
    diverged = []
    mo = []
    if ps["model_ok"]:
        t_m = vlib.time.time()
        _, mo = vlib.run_lines([vlib.model_exe("C08")], mlines, timeout=3000)
        ctx.coverage["model_replay_s"] = round(vlib.time.time() - t_m, 1)
        for k, e in enumerate(expect):
            m = mo[k] if k < len(mo) else "<missing>"
            if mlines[k].startswith("drvseq"):
                m = m.replace(" xc ", " ")          # diagnostic token of the model driver
            if m != e and nan_norm(m) != nan_norm(e):
                mt, et = m.split(), e.split()
                j = next((j for j in range(min(len(mt), len(et))) if mt[j] != et[j]),
                         min(len(mt), len(et)))
                diverged.append({"run_op": lines[owner[k]], "replay": mlines[k].split()[0],
                                 "first_differing_token": j, "model": " ".join(mt[max(0, j - 4):j + 4]),
                                 "impl": " ".join(et[max(0, j - 4):j + 4])})
        n_direct, ddiffs, dkinds, coeff, arc_fails = direct_ops(ctx, exe, 2000 if quick else 20000)
        for dd in ddiffs[:50]:
            diverged.append(dd)
    else:
        broken.append("model driver did not build")
        n_direct, dkinds, arc_fails = 0, {}, []
    if diverged:
        broken.append(f"correspondence: model and implementation differ on {len(diverged)} replays/ops")
    # impl-side oracle and contracts on every recorded propagation
    for i, seg, k in todo:
        xc = None
        if k is not None and k < len(mo):
            xc = [(" xc " in (" " + g)) for g in mo[k].split("adv ")[1:]]
        f = []
        check_segment(seg, metas[i], st, f, lines[i], xc)
        fails += [(i,) + x for x in f]
    # ---- findings of the impl-side oracle, one violation per key with the first input as replay
    seen = {}
    for i, key, what, info in fails:
        seen.setdefault(key, []).append((i, what, info))
    for key, items in sorted(seen.items()):
        i, what, info = items[0]
        ctx.violation(key, "real FieldPropagator/FieldDriver: " + what,
                      {"harness": "harness/fieldprop.cc", "op": lines[i], "info": info,
                       "occurrences_this_run": len(items),
                       "deviation_kinds": {k: sum(1 for x in items if x[2].get("deviation") == k)
                                           for k in sorted({x[2].get("deviation") for x in items
                                                            if x[2].get("deviation")})},
                       "case": {k: v for k, v in metas[i].items()}})
    dseen = {}
    for l, key, info in arc_fails:
        dseen.setdefault(key, []).append((l, info))
    for key, items in sorted(dseen.items()):
        if key in seen:
            continue
        ctx.violation(key, "real FieldDriver (driver alone): advance() returns a step length that is "
                      "not the arc integrated into the returned state",
                      {"harness": "harness/fieldprop.cc", "op": items[0][0], "info": items[0][1],
                       "occurrences_this_run": len(items)})
        seen[key] = [(None, "", x[1]) for x in items]
    zh_found = zhelix_witnesses(ctx, exe)
    if broken and not ctx.violations:
        ctx.violation("unproved", "; ".join(broken)[:600],
                      {"no_longer_checks": broken, "diverging": diverged[:3]}, found_input=False)
    elif broken:
        ctx.notes.append("proof/correspondence broken: " + "; ".join(broken)[:600])
        ctx.coverage["diverging_first"] = diverged[:3]
    if not quick:
        if ps["build"]["ok"]:
            common.leanchecker(ctx, ["CelerVerif.Props.C08"])
        san_run(ctx, lines[:400])
    ctx.assumptions += [
        "theorems are about the real-number reading of Model/FieldProp.lean; the same definitions "
        "executed at Float reproduce every call, argument and result of the real FieldPropagator / "
        "FieldDriver bit-for-bit on every trace of this run (driver, stepper and geometry ANSWERS are "
        "replayed as oracle inputs)",
        "driver contract 0 < substep <= requested and chord <= kappa*substep, geometry contract "
        "boundary => 0 <= distance <= chord + delta_intersection: asserted on every recorded answer "
        "(kappa = 1 + 25*epsilon_rel_max; largest excess seen this run: "
        f"{st.mx.get('max_chord_excess_over_eps_rel_max', 0):.3g} x epsilon_rel_max), not proved "
        "for RK4/Dormand-Prince or for ORANGE",
        "step > 0 (CELER_EXPECT, unchecked in release) and validated FieldDriverOptions",
        "NOT proved: truncation error of RK4 / Dormand-Prince against delta_chord / epsilon_rel_max "
        "(numerical analysis) — carried only by the helix-residual oracle with tolerance "
        "eps_rel_max*distance*(2+#integration steps) + delta_chord + dchord_tol + 2*delta_intersection",
        "|p|: the propagator only reads the particle; the internal ODE momentum drifts by up to "
        f"{st.mx.get('max_rel_momentum_change_per_substep_over_eps_rel_max', 0):.3g} x epsilon_rel_max "
        "per driver answer in this run (measured, never fed back into the particle)",
        "RZ-map field only through the bundled cms-tiny map on simple-cms; no Geant4/VecGeom geometries",
        "helix oracle: tolerance = min(old, 4*eps_rel_max*distance*(2+#integration steps) + "
        "2*delta_intersection + (delta_chord + dchord_tol only for a boundary landing or while the "
        "gyroradius is below 100*minimum_step)); "
        f"{st.n.get('helix_cases_tiny_radius_default_options', 0)} helix comparisons this run had a "
        "gyroradius below 3e-3 cm with the DEFAULT driver options",
        "driver arc oracle: the arc integrated into every returned driver state (chained recorded "
        "stepper calls) must equal the returned step; longer arc = known max_nsteps finding, "
        "shorter arc = key driver-step-exceeds-integrated-arc",
        f"substep-budget cases: {st.n.get('budget_spent_step_completed', 0)} propagations completed "
        f"their step with exactly the last allowed substep, {st.n.get('budget_spent_looping', 0)} "
        "spent the budget short of the step (probe run + steps of (max_substeps-1+f) substeps)",
    ]
    n_seg = st.n.get("segments", 0)
    ctx.coverage.update({
        "explanation": "LEVEL other: the logical core (termination bound, distance range, boundary "
                       "flag, looping flag, momentum handling, options validation, ZHelix closed form) "
                       "is machine-checked at ℝ on a model tied bit-exactly to the code; the accuracy "
                       "of the Runge-Kutta integrators versus the configured tolerances and the "
                       "callee contracts are only tested (oracles on recorded answers).",
        "evaluations": len(lines) + len(mlines) + n_direct, "distinct_nontrivial": len(distinct),
        "rule": "one evaluation = one harness run line (up to 6 chained propagations), one replayed "
                "propagation, one replayed driver sequence or one direct op; distinct_nontrivial = "
                "distinct recorded propagations with more than one loop iteration or a boundary "
                "landing",
        "harness_status": dict(sorted(status.items())), "propagations": n_seg,
        "harness_run_s": round(t_h, 1), "trace_bytes": sum(len(o) for o in out),
        "stats": dict(sorted(st.n.items())),
        "max": {k: float("%.6g" % v) for k, v in sorted(st.mx.items())},
        "direct_op_mix": dict(sorted(dkinds.items())), "replays": len(mlines),
        "diverging": len(diverged), "oracle_failures": {k: len(v) for k, v in seen.items()},
        "zhelix_witnesses_failing": zh_found, "correspondence_broken": broken,
        "samples": [lines[len(corpus)][:400], (mlines[0][:300] if mlines else ""),
                    (expect[0][:300] if expect else "")],
    })
    return LEVEL


def meta_of_line(line):
    """metadata of a stored `run` line (corpus / replay)"""
    kv = dict(w.split("=", 1) for w in line.split()[1:])
    o = kv["opts"].split(",")
    opts = [fl(x) for x in o[:11]] + [int(o[11]), int(o[12])]
    par = kv["par"]
    e = fl(kv["E"])
    return {"geo": kv["geo"], "fld": kv["fld"], "B": [fl(x) for x in kv["B"].split(",")],
            "stp": kv["stp"], "par": par, "E": e, "p": momentum_of(par, e), "q": PARTICLES[par][1],
            "opts": opts, "steps": [fl(x) for x in kv["steps"].split(",")], "pre": kv.get("pre", "0")}


def san_run(ctx, lines):
    """thorough tier: the same header-only code under ASan/UBSan"""
    exe, log, _ = vlib.build_harness("fieldprop", HARNESS["fieldprop"], san=True)
    if exe is None:
        ctx.notes.append("sanitizer build failed: " + log[-300:])
        return
    rc, out = vlib.sh([exe], input="\n".join(lines) + "\n", timeout=3000,
                      env={"ASAN_OPTIONS": "detect_leaks=0", "VERIF_KEEP_STDERR": "1"})
    ctx.coverage["sanitizer_cases"] = len(lines)
    if rc != 0:
        ctx.violation("sanitizer", "ASan/UBSan abort in FieldPropagator/FieldDriver harness",
                      {"rc": rc, "log": out[-1500:]}, found_input=False)


def replay(ctx, data):
    exe, log, _ = vlib.build_harness("fieldprop", HARNESS["fieldprop"])
    r = data["replay"]
    if "op" in r:
        _, o = vlib.run_lines([exe], [r["op"]])
        print("op:", r["op"])
        if o and o[0].startswith("B ") and r["op"].startswith("run "):
            st, f = Stats(), []
            for seg in parse_trace(o[0]):
                check_segment(seg, meta_of_line(r["op"]), st, f, r["op"])
            print("oracle failures now:", sorted(set(x[0] for x in f)))
            print("stats:", st.n, st.mx)
        else:
            print("impl now:", [[fl(w) if len(w) == 16 else w for w in x.split()] for x in o])
        print("recorded:", vlib.json.dumps({k: v for k, v in r.items() if k not in ("op", "case")},
                                           indent=1)[:2500])
    else:
        print(vlib.json.dumps(r, indent=1))
    return 0
