"""C07 — concurrent streams sharing problem parameters do not interfere."""
import itertools
import os
import re
import struct
from concurrent.futures import ThreadPoolExecutor

import vlib
from checks import common

LEVEL = "other"
LIBS = ["corecel", "geocel", "orange", "celeritas", "testcel_harness", "testcel_core",
        "testcel_geocel", "testcel_orange", "testcel_celeritas"]
HARNESS = {"streams": LIBS}
MANIFEST = {
    "category": "other",
    "technique": "Lean 4 proof of interference-freedom of the multi-stream DESIGN (commutation, "
                 "interleaving induction, lazy creation) + concurrent-vs-serial differential runs "
                 "of real Steppers on std::threads over one shared CoreParams (bitwise) + "
                 "ThreadSanitizer build of the harness and the stream-facing sources (thorough)",
    "text": "Proved on the model (immutable params x per-stream states x lazily created "
            "per-stream stores; a step of stream i reads the params and reads/writes component i "
            "only): steps of different streams commute; any interleaving of k streams' step lists "
            "(any k, any lengths) ends in the same global state as any other and as the serial "
            "execution, and each stream ends with what it computes alone; lazy store creation is "
            "idempotent and local.  Tested (bitwise, against a run in which every event has a "
            "fresh stream of its own): per-event results for all event->stream assignments incl. "
            "streams left idle (stream 0 / middle streams never step, their lazily created stores "
            "are never allocated) and events following an event that a step limit stopped with no "
            "track alive but primaries queued (then CoreState::reset); cross-stream totals of "
            "SimpleCalo / ActionDiagnostic / StepDiagnostic against the same reference.  "
            "Tested, not proved: that the C++ confines its writes to the "
            "stream's own state and that no shared datum is read and written without "
            "synchronisation.",
    "design_ref": "DESIGN.md §6 C07",
    "note": "ThreadSanitizer instruments the harness, all header-only code it includes and every "
            "translation unit of src/celeritas/user, src/celeritas/global, src/corecel/data and "
            "src/corecel/sys that the library build compiles here (read from build.ninja; 52 "
            "files) plus Logger, TrackInitParams, RngReseed, SortTracksAction, TrackSortUtils, "
            "StatusChecker and the three track-initialisation actions, all compiled INTO the "
            "harness; the rest of libceleritas/liborange/libcorecel (physics, geometry, "
            "materials) is NOT instrumented, so races entirely inside it are invisible. Each "
            "configuration runs under 20 schedules perturbed by seeded yields/sleeps (VERIF_SEED). "
            "A clean run does not prove the absence of races (schedules are sampled).",
}

# directories whose translation units (those the library build itself compiles here, read from
# the build tree's build.ninja) are compiled INTO the TSan harness, plus a few single files
TSAN_DIRS = ["celeritas.dir/user/", "celeritas.dir/global/", "corecel.dir/data/", "corecel.dir/sys/"]
TSAN_EXTRA = [
    "src/corecel/io/Logger.cc", "src/celeritas/track/TrackInitParams.cc",
    "src/celeritas/random/RngReseed.cc", "src/celeritas/track/SortTracksAction.cc",
    "src/celeritas/track/detail/TrackSortUtils.cc", "src/celeritas/track/StatusChecker.cc",
    "src/celeritas/track/ExtendFromPrimariesAction.cc",
    "src/celeritas/track/ExtendFromSecondariesAction.cc",
    "src/celeritas/track/InitializeTracksAction.cc",
]


def tsan_sources():
    """every .cc of the stream-facing directories that the library build compiles in this
    sandbox (so it builds stand-alone with the same headers)"""
    try:
        txt = open(os.path.join(vlib.CELER, "build.ninja")).read()
    except OSError:
        return list(TSAN_EXTRA)
    objs = set(re.findall(r"src/([a-z]+)/CMakeFiles/([a-z_]+\.dir)/([A-Za-z0-9_/.]+\.cc)\.o", txt))
    out = []
    for top, d, rel in sorted(objs):
        if any((d + "/" + rel).startswith(p) for p in TSAN_DIRS):
            out.append("src/%s/%s" % (top, rel))
    return out + [x for x in TSAN_EXTRA if x not in out]


ENV = {"CELER_LOG_LOCAL": "error", "CELER_LOG": "error"}


def _run_lines_retry(args, lines, **kw):
    """another check may be relinking a shared library of the common build tree at this very
    moment (`file too short` / `cannot open shared object`): wait and retry"""
    import time as _t
    for _ in range(12):
        rc, out = vlib.run_lines(args, lines, **kw)
        if not any("error while loading shared libraries" in l for l in out[:3]):
            return rc, out
        _t.sleep(5)
    return rc, out


def run_one(exe, line, env=None):
    e = dict(ENV)
    if env:
        e.update(env)
    rc, out = _run_lines_retry([exe], [line], env=e, timeout=1800)
    ev = {}
    totals = None
    for l in out:
        if l.startswith("event id="):
            w = l.split()
            ev[int(w[1][3:])] = " ".join(w[2:])
        elif l.startswith("totals"):
            totals = l
    ok = any(l == "done" for l in out)
    return {"line": line, "events": ev, "totals": totals, "ok": ok, "rc": rc, "raw": out}


def build_tsan():
    """harness + the stream-facing /repo sources with -fsanitize=thread, linked against the
    (uninstrumented) libraries; incremental through ninja/depfiles.  A source that does not
    compile stand-alone is left out (and listed).  Returns (exe, log, used, skipped)."""
    ok, log, _ = vlib.build_repo_libs(LIBS)
    if not ok:
        return None, log, [], []
    inc, cxx, ld = vlib.harness_flags(LIBS)
    cxx = [f for f in cxx if f != "-O1"] + ["-O1", "-g", "-fsanitize=thread"]
    os.makedirs(vlib.HBUILD, exist_ok=True)
    rel = tsan_sources()
    srcs = [os.path.join(vlib.HARNESS, "streams.cc")] + [os.path.join(vlib.REPO, s) for s in rel]
    head = ["rule cxx", "  command = g++ $flags -MMD -MF $out.d -c $in -o $out",
            "  depfile = $out.d", "  deps = gcc",
            "rule link", "  command = g++ $flags $in -o $out $ldflags"]
    objs = {}
    comp = []
    for s in srcs:
        tag = s.replace(vlib.REPO, "").replace(vlib.HARNESS, "h").strip("/").replace("/", "_")
        o = os.path.join(vlib.HBUILD, "tsan_" + tag + ".o")
        objs[s] = o
        comp += [f"build {o}: cxx {s}", "  flags = " + " ".join(cxx + inc)]
    exe = os.path.join(vlib.HBUILD, "streams_tsan")
    nin_c = os.path.join(vlib.HBUILD, "streams_tsan_objs.ninja")
    nin_l = os.path.join(vlib.HBUILD, "streams_tsan_link.ninja")
    with vlib.Lock("harness_streams_tsan"):
        text = "\n".join(head + comp) + "\n"
        if not os.path.exists(nin_c) or open(nin_c).read() != text:
            open(nin_c, "w").write(text)
        rc, out = vlib.sh(["ninja", "-k", "0", "-f", nin_c, "-C", vlib.HBUILD], timeout=7200)
        good = [s for s in srcs if os.path.exists(objs[s]) and
                os.path.getmtime(objs[s]) >= os.path.getmtime(s)]
        skipped = [s for s in srcs if s not in good]
        if srcs[0] not in good:
            return None, out[-4000:], [], skipped
        text = "\n".join(head + [f"build {exe}: link " + " ".join(objs[s] for s in good),
                                  "  flags = " + " ".join(cxx), "  ldflags = " + " ".join(ld)]) + "\n"
        if not os.path.exists(nin_l) or open(nin_l).read() != text:
            open(nin_l, "w").write(text)
        rc, out2 = vlib.sh(["ninja", "-f", nin_l, "-C", vlib.HBUILD], timeout=3600)
    return (exe if rc == 0 else None), (out + out2)[-4000:], \
        [g.replace(vlib.REPO + "/", "") for g in good[1:]], \
        [g.replace(vlib.REPO + "/", "") for g in skipped]


def tsan_reports(text):
    reps = []
    for blk in text.split("WARNING: ThreadSanitizer:")[1:]:
        kind = blk.split("(pid")[0].strip()
        frames = re.findall(r"#\d+ (\S[^\n]*?) (/\S+?):(\d+)", blk)
        where = "?"
        for fn, path, ln in frames:
            if "/repo/src/" in path or "/verif/harness/" in path:
                if "celeritas::" in fn and "StreamStore" not in fn and "operator" not in fn.split("(")[0][-12:]:
                    where = re.sub(r"\(.*", "", fn).replace("celeritas::", "")
                    break
        reps.append({"kind": kind, "where": where, "head": blk[:1800]})
    return reps


def run(ctx):
    quick = ctx.quick()
    ps = common.proof_side(ctx, "C07")
    broken = [b for b in ps["broken"]]
    ctx.assumptions += [
        "the model is abstract: a stream's step is ANY function of (params, its own core state, "
        "its own lazily created store); the theorems hold for all such functions",
        "that the C++ confines every write to the stream's own state is a runtime fact: tested by "
        "threads-vs-serial differential runs and (thorough tier) ThreadSanitizer on the harness + "
        "the stream-facing translation units; the libraries themselves are not TSan-instrumented",
        "event level: the theorems assume EvSem.Isolated (the event boundary overwrites every datum "
        "transport reads with a function of (params, event id); the result does not read the "
        "stream id) — for the C++ this is what the fresh-stream reference comparison tests",
        "OpenMP is disabled in the harness (CELER_DISABLE_PARALLEL, OMP_NUM_THREADS=1): "
        "concurrency comes from std::thread only",
    ]
    ctx.coverage["explanation"] = (
        "PROVED (Lean, on the model Model/Streams.lean): steps_commute, "
        "any_interleaving_equals_any_other, any_interleaving_equals_serial (any number of "
        "streams, any step-list lengths, any schedule), lazy_create_idempotent; event level: "
        "any_assignment_gives_reference_results, assignments_agree, "
        "concurrent_equals_single_stream under the isolation contract EvSem.Isolated (event "
        "boundary overwrites everything transport reads; result ignores the stream id), "
        "leaky_depends_on_assignment (the contract is necessary), rngEv_isolated / "
        "reseeded_events_independent_of_assignment (contract discharged for the RNG with the "
        "C13 model of reseed_rng as the event boundary) — i.e. the DESIGN "
        "(immutable shared params, per-stream state, lazily created per-stream stores) is "
        "interference-free.  TESTED ONLY: that the C++ implements this design — per-event step "
        "streams, StepperResult sequences, diagnostics and calorimeter totals of 2-16 concurrent "
        "std::threads (each constructing and driving its own Stepper over one shared CoreParams) "
        "compared bitwise with the single-stream serial run, for all event->stream assignments "
        "of small cases and random assignments of larger ones; data races by ThreadSanitizer on "
        "the harness and the stream-facing sources only (thorough tier).")
    exe, log, _ = vlib.build_harness("streams", LIBS)
    if exe is None:
        ctx.violation("harness-build", "harness/streams.cc no longer builds against /repo",
                      {"correspondence": "harness build", "log": log[-2000:]}, found_input=False)
        ctx.coverage.update({"evaluations": 0, "distinct_nontrivial": 0})
        return LEVEL

    _reported = {}
    _violation = ctx.violation

    def violation_capped(key, what, replay, found_input=True):
        # one mutation typically breaks dozens of runs: keep two replays per key
        _reported[key] = _reported.get(key, 0) + 1
        if _reported[key] <= 2:
            _violation(key, what, replay, found_input)
    ctx.violation = violation_capped
    jobs = []        # (case, kind, n_events, line)
    cases = []
    n_cases = 3 if quick else 8

    def cutspec(case, n):
        cs = [e for e in case["cut"] if e < n]
        return (" cut=" + ",".join(map(str, cs))) if cs else ""

    # the last case is FIXED (small corpus): one slot, six primaries — events 0 and 2 are stopped
    # by the step limit with no track alive and five primaries queued, whatever VERIF_SEED is, so
    # the coverage guards below never depend on luck
    for c in range(n_cases + 1):
        # family 0: mock, few slots, more primaries than slots, some events are stopped by a step
        #           limit where no track is alive but primaries are queued, then the state is reset
        # family 1: simple (Compton)      family 2: mock, many slots, no cuts
        famc = c % 3
        prob = "simple" if famc == 1 else "mock"
        if famc == 0:
            slots = ctx.rng.choice([1, 2, 2, 3])
            prims = ctx.rng.range(slots + 3, slots + 9)
        else:
            slots = ctx.rng.choice([2, 4, 8, 16])
            prims = ctx.rng.range(2, 10) if prob == "mock" else ctx.rng.range(1, 3)
        seed = ctx.rng.below(10000)
        n_ev = 3 if prob == "mock" else 2
        cut = sorted({e for e in range(40) if famc == 0 and ctx.rng.chance(1, 2)} | ({0} if famc == 0 else set()))
        if c == n_cases:
            famc, prob, slots, prims, seed, n_ev = 0, "mock", 1, 6, 3, 4
            cut = [0, 2] + [e for e in range(4, 40) if e % 2 == 0]
        base = "run prob=%s slots=%d prims=%d seed=%d" % (prob, slots, prims, seed)
        case = {"base": base, "n_ev": n_ev, "cut": cut, "prob": prob}
        cases.append(case)

        def add(kind, n, k, asg, mode, extra=""):
            jobs.append((c, kind, n, base + " streams=%d assign=%s mode=%s%s%s"
                         % (k, ",".join(map(str, asg)), mode, cutspec(case, n), extra)))

        def fresh(n):
            # REFERENCE: every event on its own, never used stream (and nothing else on it)
            add("fresh", n, n, list(range(n)), "serial")
            if prob == "mock":
                add("fresh", n, n, list(range(n)), "serial", " calo=1")

        fresh(n_ev)
        add("one", n_ev, 1, [0] * n_ev, "serial")          # all events after each other on ONE stream
        if c == n_cases:
            # events 1 and 3 follow the cut events 0 and 2 on their streams
            add("thr", n_ev, 2, [0, 0, 1, 1], "threads", " sched=7")
            add("ser", n_ev, 4, [1, 1, 3, 3], "serial")       # streams 0 and 2 idle
            add("thr", n_ev, 4, [1, 1, 3, 3], "threads", " calo=1")
            continue
        # all assignments of the events to 2 streams (and 3 in the thorough tier); these include
        # assignments that leave stream 0 or a middle stream without any event
        for k in ([2] if quick else [2, 3]):
            for asg in itertools.product(range(k), repeat=n_ev):
                reps = 1 if quick else 2
                for r_ in range(reps):
                    sched = ctx.rng.below(1 << 30) if r_ or ctx.rng.chance(1, 2) else 0
                    add("thr", n_ev, k, asg, "threads", " sched=%d" % sched)
                if prob == "mock" and (quick or ctx.rng.chance(1, 2)):
                    add("thr", n_ev, k, asg, "threads", " calo=1")
        # many streams, many events; then the same with IDLE streams: stream 0 and at least one
        # middle stream get no event and never take a step (their lazily created per-stream
        # diagnostic / calorimeter states are never allocated)
        for k in ([4, 16] if quick else [4, 8, 16, 16]):
            n = ctx.rng.range(k, 2 * k)
            fresh(n)
            add("one", n, 1, [0] * n, "serial")
            for idle in (False, True):
                if idle:
                    dead = {0, ctx.rng.range(1, k - 2)} | {s_ for s_ in range(1, k - 1) if ctx.rng.chance(1, 4)}
                    live = [s_ for s_ in range(k) if s_ not in dead]
                else:
                    live = list(range(k))
                asg = [ctx.rng.choice(live) for _ in range(n)]
                add("ser", n, k, asg, "serial")
                add("thr", n, k, asg, "threads", " sched=%d" % ctx.rng.below(1 << 30))
                if prob == "mock":
                    add("ser", n, k, asg, "serial", " calo=1")
                    add("thr", n, k, asg, "threads", " calo=1")
    with ThreadPoolExecutor(max_workers=4) as ex:
        outs = list(ex.map(lambda j: run_one(exe, j[3]), jobs))

    def totals_of(o):
        kv = dict(w.split("=", 1) for w in (o["totals"] or "").split()[1:])
        calo = None if kv.get("calo", "-") == "-" else \
            [struct.unpack(">d", bytes.fromhex(x))[0] for x in kv["calo"].strip(",").split(",")]
        return kv.get("adiag"), kv.get("sdiag"), calo

    def idle_streams(line):
        k = int(re.search(r"streams=(\d+)", line).group(1))
        used = {int(x) for x in re.search(r"assign=([\d,]+)", line).group(1).split(",")}
        return sorted(set(range(k)) - used)

    # per-event results and cross-stream totals: every run against the run in which each event
    # has a fresh stream of its own
    n_cmp = n_bad = 0
    distinct = set()
    cov = {"runs_with_idle_stream_0": 0, "runs_with_idle_middle_stream": 0,
           "totals_compared_with_idle_streams": 0, "cut_events": 0,
           "cuts_with_alive0_queued": 0, "events_following_a_cut_on_their_stream": 0}
    for c, case in enumerate(cases):
        ref_ev, ref_tot, ref_line = {}, {}, {}
        for (cc, kind, n, line), o in zip(jobs, outs):
            if cc != c or kind != "fresh" or not o["ok"]:
                continue
            calo = "calo=1" in line
            ref_tot[(n, calo)] = totals_of(o)
            ref_line[(n, calo)] = line
            if not calo:
                for e, v in o["events"].items():
                    if ref_ev.setdefault(e, v) != v:
                        ctx.violation("fresh-run-not-deterministic", "two fresh-stream runs of "
                                      f"event {e} differ", {"ops": [line]})
        for (cc, kind, n, line), o in zip(jobs, outs):
            if cc != c:
                continue
            if not o["ok"] or any("FAILED" in v for v in o["events"].values()):
                n_bad += 1
                ctx.violation("concurrent-run-failed", "harness run did not complete: "
                              + " ".join(o["raw"][-3:])[:300], {"ops": [line]})
                continue
            distinct.add(line)
            if kind == "fresh":
                continue
            calo = "calo=1" in line
            asg = [int(x) for x in re.search(r"assign=([\d,]+)", line).group(1).split(",")]
            cutset = set(case["cut"])
            for e, v in o["events"].items():
                n_cmp += 1
                want = ref_ev.get(e)
                if " cut=1" in v and not calo:
                    cov["cut_events"] += 1
                    if int(v.split(" q=")[1]) > 0:
                        cov["cuts_with_alive0_queued"] += 1
                if any(asg[p_] == asg[e] and p_ in cutset for p_ in range(e)) and not calo:
                    cov["events_following_a_cut_on_their_stream"] += 1
                if calo:      # no recorder attached: compare the StepperResult sequence only
                    v = v.split("res=")[1]
                    want = want.split("res=")[1] if want else None
                if want is not None and v != want:
                    n_bad += 1
                    prev = [p_ for p_ in range(e) if asg[p_] == asg[e]]
                    ctx.violation("event-differs-from-fresh-stream:" + kind,
                                  f"event {e} transported on stream {asg[e]} of `{line}` (after events "
                                  f"{prev} on that stream, cut events {sorted(cutset & set(prev))}) differs "
                                  f"from the same event on a fresh stream: {v} vs {want}",
                                  {"harness": "harness/streams.cc",
                                   "ops_A": [ref_line.get((n, False), "")], "ops_B": [line], "event": e,
                                   "contradicts": "C07 any_interleaving_equals_serial / C06 "
                                                  "event_result_is_function_of"})
            # cross-stream totals (accumulate_over_streams) against the reference totals
            want_t = ref_tot.get((n, calo))
            if want_t is None:
                continue
            got_t = totals_of(o)
            idle = idle_streams(line)
            k_ = int(re.search(r"streams=(\d+)", line).group(1))
            if 0 in idle:
                cov["runs_with_idle_stream_0"] += 1
            if any(0 < s_ < k_ - 1 for s_ in idle):
                cov["runs_with_idle_middle_stream"] += 1
            if idle:
                cov["totals_compared_with_idle_streams"] += 1
            n_cmp += 1
            # action diagnostic is skipped altogether on one-slot states (known C17 finding):
            # compare it only between runs with the same slot count — which all of a case are
            problems = []
            if got_t[0] != want_t[0]:
                problems.append(f"ActionDiagnostic totals hash {got_t[0]} vs {want_t[0]}")
            if got_t[1] != want_t[1]:
                problems.append(f"StepDiagnostic totals hash {got_t[1]} vs {want_t[1]}")
            if want_t[2] is not None and got_t[2] is not None:
                for d_, (x, y) in enumerate(zip(got_t[2], want_t[2])):
                    # the floating-point grouping differs with the assignment: relative 1e-9
                    if abs(x - y) > 1e-9 * max(1.0, abs(y)):
                        problems.append(f"SimpleCalo detector {d_} total {x!r} vs {y!r}")
            if problems:
                n_bad += 1
                ctx.violation("totals-differ-from-fresh-streams" + (":idle-streams" if idle else ""),
                              "cross-stream totals differ from the run in which every event has its "
                              f"own stream ({'; '.join(problems[:4])}); streams without any event: "
                              f"{idle}",
                              {"harness": "harness/streams.cc", "ops_A": [ref_line[(n, calo)]],
                               "ops_B": [line], "idle_streams": idle,
                               "contradicts": "C07: per-stream stores are independent; totals = sum "
                                              "over all allocated streams (lazy_create_idempotent)"})
        # totals: threads vs serial execution of the same assignment (bitwise, incl. calorimeter)
        by_cfg = {}
        for (cc, kind, n, line), o in zip(jobs, outs):
            if cc == c and kind in ("ser", "thr") and o["ok"]:
                key = re.sub(r" sched=\d+", "", line).replace("mode=threads", "").replace("mode=serial", "")
                by_cfg.setdefault(key, {})[kind] = o
        for key, d in by_cfg.items():
            if "ser" in d and "thr" in d:
                n_cmp += 1
                if d["ser"]["totals"] != d["thr"]["totals"]:
                    n_bad += 1
                    ctx.violation("totals-differ-from-serial",
                                  "diagnostic / calorimeter totals of the threaded run differ from the "
                                  f"serial run of the same assignment: {d['thr']['totals']} vs "
                                  f"{d['ser']['totals']}",
                                  {"harness": "harness/streams.cc", "ops_A": [d["ser"]["line"]],
                                   "ops_B": [d["thr"]["line"]]})
    ctx.violation = _violation
    # the situations the comparisons are about must have occurred
    if not ctx.violations:
        for key_, what in (("runs_with_idle_stream_0", "no run left stream 0 without events"),
                           ("runs_with_idle_middle_stream", "no run left a middle stream without events"),
                           ("cuts_with_alive0_queued", "no event was cut where no track was alive "
                                                       "while primaries were queued"),
                           ("events_following_a_cut_on_their_stream", "no event followed a cut event "
                                                                      "on the same stream")):
            if cov[key_] == 0:
                ctx.violation("coverage:" + key_, what + ": the corresponding comparison was not "
                              "exercised", {"coverage": cov}, found_input=False)

    # ---- ThreadSanitizer (thorough tier): every configuration under >= 20 random schedules
    tsan = {"ran": False}
    if not quick:
        texe, tlog, used, skipped = build_tsan()
        tsan.update({"instrumented_sources": len(used), "not_buildable_standalone": skipped})
        if texe is None:
            ctx.notes.append("TSan build failed: " + tlog[-500:])
            tsan["build_failed"] = True
        else:
            tsan["ran"] = True
            configs = [
                "run prob=mock slots=8 streams=4 prims=6 seed=3 assign=0,1,2,3,0,1,2,3 mode=threads",
                "run prob=mock slots=8 streams=8 prims=4 seed=5 assign=0,1,2,3,4,5,6,7 mode=threads calo=1",
                "run prob=simple slots=4 streams=3 prims=1 seed=2 assign=0,1,2 mode=threads",
                "run prob=mock slots=4 streams=16 prims=3 seed=9 assign=%s mode=threads"
                % ",".join(str(i % 16) for i in range(24)),
                "run prob=mock slots=16 streams=2 prims=12 seed=11 assign=0,1,1,0,0,1 mode=threads",
            ]
            n_sched = 20
            tjobs = []
            for ci, c in enumerate(configs):
                for k in range(n_sched):
                    sched = 1 + (ctx.seed * 1000003 + ci * 7919 + k * 104729) % (1 << 30)
                    tjobs.append(c + " sched=%d" % sched)

            def trun(l):
                rc, out = vlib.sh([texe], input=l + "\n", timeout=3600,
                                  env=dict(ENV, TSAN_OPTIONS="halt_on_error=0 report_signal_unsafe=0"))
                done = any(x == "done" for x in out.split("\n"))
                return l, tsan_reports(out), done, out[-600:]
            with ThreadPoolExecutor(max_workers=4) as ex:
                touts = list(ex.map(trun, tjobs))
            reports = []
            for l, reps, done, tail in touts:
                for r in reps:
                    r["op"] = l
                    reports.append(r)
                if not done:
                    ctx.violation("tsan-run-failed", "TSan harness run did not complete: " + tail[-300:],
                                  {"ops": [l]})
            tsan.update({"configurations": len(configs), "schedules_per_configuration": n_sched,
                         "runs": len(tjobs), "reports": len(reports)})
            seen = {}
            for r in reports:
                key = "tsan:" + r["kind"].replace(" ", "-") + ":" + r["where"]
                seen[key] = seen.get(key, 0) + 1
                if seen[key] > 1:
                    continue
                ctx.violation(key, f"ThreadSanitizer: {r['kind']} in {r['where']} with concurrent "
                              "streams over shared params",
                              {"harness": "harness/streams.cc (TSan build: tools/checks/c07.py "
                                          "build_tsan)", "ops": [r["op"]], "report": r["head"],
                               "contradicts": "C07: no shared datum read and written concurrently "
                                              "without synchronisation"})
            tsan["distinct"] = dict(sorted(seen.items()))

    if broken and not ctx.violations:
        ctx.violation("unproved", "; ".join(broken)[:600], {"no_longer_checks": broken},
                      found_input=False)
    if not quick and ps["build"]["ok"]:
        common.leanchecker(ctx, ["CelerVerif.Props.C07"])
    ctx.coverage.update({
        "evaluations": len(jobs) + tsan.get("runs", 0), "distinct_nontrivial": len(distinct),
        "rule": "one evaluation = one harness run (all events of one event->stream assignment, "
                "threaded or serial); distinct = distinct completed run lines; every run "
                "transports >= 2 events",
        "comparisons": n_cmp, "mismatches": n_bad, "cases": [c["base"] for c in cases],
        "situations": cov, "violations_by_key": dict(_reported),
        "thread_counts": sorted({int(re.search(r"streams=(\d+)", j[3]).group(1)) for j in jobs}),
        "tsan": tsan, "samples": [jobs[1][3], jobs[-1][3]],
        "correspondence_broken": broken,
    })
    return LEVEL


def replay(ctx, data):
    r = data["replay"]
    if data.get("key", "").startswith("tsan:"):
        texe, tlog, _, _ = build_tsan()
        if texe is None:
            print("TSan build failed", tlog[-500:])
            return 2
        rc, out = vlib.sh([texe], input=r["ops"][0] + "\n", timeout=3600,
                          env=dict(ENV, TSAN_OPTIONS="halt_on_error=0"))
        reps = tsan_reports(out)
        for x in reps[:3]:
            print(x["kind"], x["where"])
        print("no report" if not reps else "RACE REPORTED (violation reproduced)")
        return 1 if reps else 0
    exe, log, _ = vlib.build_harness("streams", LIBS)
    a = run_one(exe, r["ops_A"][0])
    b = run_one(exe, r["ops_B"][0])
    print(a["events"], a["totals"])
    print(b["events"], b["totals"])
    if "event" in r:
        e = r["event"]
        same = a["events"].get(e) == b["events"].get(e)
    elif data.get("key", "").startswith("totals-differ-from-fresh-streams"):
        def tot(o):
            kv = dict(w.split("=", 1) for w in (o["totals"] or "").split()[1:])
            calo = None if kv.get("calo", "-") == "-" else \
                [struct.unpack(">d", bytes.fromhex(x))[0] for x in kv["calo"].strip(",").split(",")]
            return kv.get("adiag"), kv.get("sdiag"), calo
        ta, tb = tot(a), tot(b)
        same = ta[0] == tb[0] and ta[1] == tb[1] and (
            ta[2] is None or all(abs(x - y) <= 1e-9 * max(1.0, abs(y)) for x, y in zip(tb[2], ta[2])))
    else:
        same = a["totals"] == b["totals"]
    print("agree" if same else "DISAGREE (violation reproduced)")
    return 0 if same else 1
