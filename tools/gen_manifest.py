#!/usr/bin/env python3
"""Write /verif/MANIFEST.json from tools/manifest_data.py and validate it."""
import json
import os
import sys

sys.path.insert(0, os.path.dirname(os.path.abspath(__file__)))
import manifest_data as md  # noqa: E402

VERIF = os.path.dirname(os.path.dirname(os.path.abspath(__file__)))
ALL = ["C%02d" % i for i in range(1, 21)]


def main():
    checks = []
    for pid in ALL:
        if pid not in md.CHECKS:
            continue
        c = md.CHECKS[pid]
        checks.append({
            "property_id": pid,
            "quick_cmd": f"python3 tools/check.py {pid} --tier quick",
            "thorough_cmd": f"python3 tools/check.py {pid} --tier thorough",
            "evidence_file": f"/verif/evidence/{pid}.json",
            "replay_cmd_template": f"python3 tools/check.py {pid} --replay {{path}}",
            "engine": "lean4-model+correspondence",
            "level_claimed": {"category": c["category"], "text": c["text"],
                              "design_ref": c["design_ref"]},
            "level_note": c["note"] + md.LEVEL_NOTE_COMMON,
            "technique": c["technique"],
        })
    na = [{"property_id": p, "reason": md.NOT_APPLICABLE.get(
        p, "not yet built: model, theorems and correspondence harness for this property are "
           "still to be written (see DESIGN.md §6); nothing is claimed until a check exists")}
          for p in ALL if p not in md.CHECKS]
    man = {
        "version": 1,
        "setup_cmd": "python3 tools/setup.py",
        "hooks": {
            "guard": "CELERITAS_VERIF_HOOKS",
            "enable": "checks configure their own build tree /verif/.build/celer with "
                      "-DCMAKE_CXX_FLAGS=-DCELERITAS_VERIF_HOOKS and compile the harnesses with "
                      "the same define (no hook is present in /repo so far)",
            "baseline_off_cmd": "cmake --build /repo/_build && ctest --test-dir /repo/_build -j8 "
                                "--timeout 900",
            "source_commits": [],
            "add_only": True,
        },
        "engines": [{
            "name": "lean4-model+correspondence",
            "path": "/verif/lean, /verif/tools/check.py, /verif/harness",
            "serves_properties": [c["property_id"] for c in checks],
            "kind_free_text": "Lean 4 executable model + kernel-checked theorems; translator "
                              "regenerates tables/constants from source; C++ harness runs the real "
                              "code and the model on the same op lines and diffs",
        }],
        "checks": checks,
        "not_applicable": na,
        "notes": "All checks go through tools/check.py <id>; see DESIGN.md.",
    }
    p = os.path.join(VERIF, "MANIFEST.json")
    with open(p, "w") as f:
        json.dump(man, f, indent=1)
        f.write("\n")
    try:
        import jsonschema
        jsonschema.validate(man, json.load(open("/root/.vp/MANIFEST.schema.json")))
        print("MANIFEST.json valid;", len(checks), "checks,", len(na), "not_applicable")
    except ImportError:
        print("jsonschema not available; written without validation")


if __name__ == "__main__":
    main()
