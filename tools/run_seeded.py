#!/usr/bin/env python3
"""Apply each seeded change under /verif/seeded/<ID>-m<k>/patch.diff to /repo, run the
property's quick check (and optionally its demo against our build tree), undo the change.
Usage: tools/run_seeded.py [ID-mk ...]   (default: all).  Results -> seeded/RESULTS.json"""
import json
import os
import re
import subprocess
import sys
import time

VERIF = os.path.dirname(os.path.dirname(os.path.abspath(__file__)))
SEED = os.path.join(VERIF, "seeded")


def sh(cmd, **kw):
    p = subprocess.run(cmd, shell=True, stdout=subprocess.PIPE, stderr=subprocess.STDOUT, text=True, **kw)
    return p.returncode, p.stdout


BUILD = os.path.join(VERIF, ".build", "celer")
# other properties whose checks cover the same code: tried when the property's own check
# does not report the change
RELATED = {
    "C14": ["C01", "C05"], "C10": ["C11", "C03", "C09"], "C09": ["C12", "C03", "C19"],
    "C01": ["C05", "C04", "C16"], "C05": ["C01", "C14"], "C04": ["C01", "C16"], "C16": ["C02", "C04"],
    "C15": ["C20", "C01"], "C11": ["C03"], "C19": ["C03"], "C03": ["C12", "C11", "C05"], "C02": ["C16"],
    "C06": ["C02", "C13"], "C17": ["C06"], "C20": ["C15"], "C08": ["C05"], "C07": ["C17"],
}


def demo(n):
    """build + run the mutant's own demonstration against /repo's current tree and our build
    tree; returns its exit status (0 = property holds) or None if there is no demo"""
    src = os.path.join(SEED, n)
    # scratch copy with the seeding worktree's absolute paths redirected to /repo
    d = os.path.join("/tmp", "seeded_demo_dir", n)
    sh(f"rm -rf {d}; mkdir -p {d}; cp -r {src}/. {d}/")
    wt = "/tmp/seed-" + n.split("-")[0].lower()
    wt2 = wt.replace("/tmp/seed-", "/tmp/seed2-")
    sh(f"grep -rlZ -e '{wt}' -e '{wt2}' {d} | xargs -0 -r sed -i "
       f"'s#{wt2}/_build#{BUILD}#g; s#{wt2}#/repo#g; s#{wt}/_build#{BUILD}#g; s#{wt}#/repo#g'")
    if "libtestcel" in open(os.path.join(d, "demo.sh")).read() if os.path.exists(os.path.join(d, "demo.sh")) else False:
        return None, "needs test libraries: run by tools/confirm_seeded_tests.py in its own worktree"
    sh(f"ninja -C {BUILD} libcorecel.so libgeocel.so liborange.so libceleritas.so")
    script = os.path.join(d, "demo.sh")
    if not os.path.exists(script):
        for alt in ("build_demo.sh", "run_demo.sh", "run.sh"):
            if os.path.exists(os.path.join(d, alt)):
                script = os.path.join(d, alt)
                break
    cc = os.path.join(d, "demo.cc")
    if os.path.exists(script):
        txt = open(script).read()
        envs = (f"R=/repo B={BUILD} SRC=/repo BUILD={BUILD} CELER_SRC=/repo CELER_BUILD={BUILD} "
                f"REPO_ROOT=/repo BUILD_DIR={BUILD} CELER_SOURCE_ROOT=/repo ROOT=/repo CELER_ROOT=/repo WT=/repo C05_SRC=/repo C05_BUILD={BUILD}")
        if ("ROOT=${ROOT:-" in txt and "/seeded" in txt and "CFG" in txt and "-lcorecel" not in txt
                and os.path.exists(cc)):
            exe = os.path.join("/tmp", "seeded_demo_" + n)
            rc, out = sh(f"g++ -std=c++17 -O1 -I/repo/src -I{BUILD}/include {cc} -o {exe} && "
                         f"CELER_DISABLE_PARALLEL=1 {exe}; rc=$?; rm -f {exe}; exit $rc")
        else:
            rc, out = sh(f"{envs} sh {script} /repo {BUILD}", cwd=d)
        sh(f"rm -rf {d}")
        return rc, out[-400:]
    sh(f"rm -rf {d}")
    return None, ""


def main():
    names = sys.argv[1:] or sorted(d for d in os.listdir(SEED)
                                   if re.match(r"C\d\d-m\d+$", d))
    resf = os.path.join(SEED, "RESULTS.json")
    results = json.load(open(resf)) if os.path.exists(resf) else {}
    rc, st = sh("git -C /repo status --porcelain --untracked-files=no")
    if st.strip():
        print("refusing: /repo has uncommitted changes:\n" + st)
        return 2
    for n in names:
        pid = n.split("-")[0]
        patch = os.path.join(SEED, n, "patch.diff")
        t0 = time.time()
        rc, out = sh(f"git -C /repo apply {patch}")
        if rc != 0:
            results[n] = {"applied": False, "log": out[-500:]}
            print(n, "PATCH DOES NOT APPLY")
            continue
        try:
            rc, out = sh(f"python3 tools/check.py {pid} --tier quick", cwd=VERIF,
                         env=dict(os.environ, VERIF_SEED=os.environ.get("VERIF_SEED", "0")))
            viol = [l for l in out.split("\n") if l.startswith("VIOLATION")]
            why = [l for l in out.split("\n") if l.startswith("# ")]
            results[n] = {"applied": True, "check_exit": rc, "detected": rc == 1 and bool(viol),
                          "with_failing_input": any("no-failing-input-found" not in v for v in viol),
                          "violation_lines": viol[:4], "reasons": [w[:300] for w in why[:4]],
                          "wall_s": round(time.time() - t0, 1)}
            print(n, "detected" if results[n]["detected"] else "MISSED", f"exit={rc}",
                  "input-found" if results[n]["with_failing_input"] else "no-input", f"{time.time()-t0:.0f}s")
            for w in why[:2]:
                print("    ", w[:200])
            results[n]["checked_by"] = pid
            if not results[n]["detected"]:
                for other in RELATED.get(pid, []):
                    rc2, out2 = sh(f"python3 tools/check.py {other} --tier quick", cwd=VERIF,
                                   env=dict(os.environ, VERIF_SEED=os.environ.get("VERIF_SEED", "0")))
                    v2 = [l for l in out2.split("\n") if l.startswith("VIOLATION")]
                    if rc2 == 1 and v2:
                        why2 = [l for l in out2.split("\n") if l.startswith("# ")]
                        results[n].update({"detected": True, "checked_by": other, "own_check_missed": True,
                                           "with_failing_input": any("no-failing-input-found" not in v for v in v2),
                                           "violation_lines": v2[:4], "reasons": [w[:300] for w in why2[:4]]})
                        print("     own check missed; caught by", other, (why2 or [""])[0][:160])
                        break
            drc, dout = demo(n)
            results[n]["demo_exit_with_change"] = drc
        finally:
            sh("git -C /repo checkout -- .")
            # evidence written while the change was applied does not describe the unchanged tree
            sh(f"git -C {VERIF} checkout -- evidence")
        drc2, _ = demo(n)
        results[n]["demo_exit_without_change"] = drc2
        results[n]["demo_confirms"] = (results[n].get("demo_exit_with_change") not in (0, None)
                                       and drc2 == 0)
        print("     demo with/without:", results[n].get("demo_exit_with_change"), drc2)
        json.dump(results, open(resf, "w"), indent=1, sort_keys=True)
    return 0


if __name__ == "__main__":
    sys.exit(main())
